EXPECTED_FACTS = {
    "c05_fn_MemoryChannel.NewAofWritter": "52e1e3aef6be",
    "c05_fn_MemoryChannel.appendAof": "41f5c4ff6044",
    "c05_fn_MemoryChannel.appendRdb": "61c73b595ad7",
    "c05_fn_MemoryChannel.ensureCapacityLocked": "9270ccab32fd",
    "c05_fn_MemoryChannel.finishAof": "33a581f9b423",
    "c05_fn_MemoryRdbWriter.ingest": "3a3d4e48195e",
    "c05_fn_StoreChannel.StartPoint": "3619db42fbec",
    "c05_fn_Storer.DelRunId": "185b1021ccc4",
    "c05_fn_Storer.LatestOffset": "746ae6e8d9b5",
    "c05_fn_Storer.SetRunId": "b7248cd4986f",
    "c05_fn_Storer.VerifyRunId": "a57cab4ebe39",
    "c05_fn_Storer.newRunId": "8cd70f4f6865",
    "c05_fn_changeReplId": "04016ea37ece",
    "c05_fn_dataSet.Right": "9c1a50ba8cc6",
    "c05_package_state": [
        "pkg/store/aof_writer.go: fixHeader read-only",
        "pkg/store/aof_writer.go: writeDataCounter read-only",
        "pkg/store/aof_reader.go: errOrphaned read-only",
        "pkg/store/rdb_writer.go: rdbWriteDataCounter read-only",
        "config: Channel.VerifyCrc"
    ],
    "c05_writer_offset_flow": [
        "syncMeta: locSp, err = ri.channel.StartPoint(inputIds)",
        "syncMeta: clearLocal = true",
        "syncMeta: locSp = StartPoint{RunId: sOffset.RunId, Offset: outSp.Offset}",
        "syncMeta: clearLocal = true",
        "syncMeta: locSp = StartPoint{RunId: sOffset.RunId, Offset: outSp.Offset}",
        "syncMeta: if isFullSync || clearLocal -> ri.channel.DelRunId(ri.channel.RunId())",
        "syncMeta: locSp.RunId = sOffset.RunId",
        "syncMeta: locSp.Offset = sOffset.Offset",
        "fetchInput: ri.syncData(wait, redisCli, isFullSync, rdbSize, locSp.Offset)",
        "syncData: ri.channel.NewRdbWriter(redisCli.Client().BufioReader(), offset, rdbSize)",
        "syncData: ri.channel.NewAofWritter(redisCli.Client().BufioReader(), offset)",
        "syncData: wait.IsClosed()",
        "syncData: rdbWriter.Close()",
        "syncData: aofWriter.Close()",
        "syncData: ri.channel.NewAofWritter(redisCli.Client().BufioReader(), offset)",
        "syncIncr: writer.Start()",
        "syncIncr: writer.Close()",
        "syncRdb: writer.Start()",
        "syncRdb: writer.Close()",
        "aofSync: sp, err := rf.channel.StartPoint([]string{followerSp.RunId})",
        "aofSync: left := resp.GetOffset()",
        "aofSync: if left > sp.Offset && !sp.IsInitial()",
        "aofSync: err = rf.channel.DelRunId(followerSp.RunId)",
        "aofSync: sp.Offset = left",
        "aofSync: err = rf.channel.SetRunId(followerSp.RunId)",
        "aofSync: writer, err := rf.channel.NewAofWritter(reader, resp.GetOffset())",
        "rdbSync: left := resp.GetOffset()",
        "rdbSync: err := rf.channel.DelRunId(followerSp.RunId)",
        "rdbSync: followerSp.Offset = left",
        "rdbSync: err := rf.channel.SetRunId(followerSp.RunId)",
        "rdbSync: writer, err := rf.channel.NewRdbWriter(reader, left, rdbSize)"
    ]
}

PROP = {
    "lean_modules": ["GunYu.Props.C05", "GunYu.Props.C05Recv", "GunYu.Props.C05Callers", "GunYu.Props.C05Dirs",
                     "GunYu.Props.C05Progress", "GunYu.Props.C05Window", "GunYu.Props.C05Reach", "GunYu.Props.C05Distinct", "GunYu.Props.C05ReachD", "GunYu.Props.C05Spec"],
    "audit_namespaces": ["GunYu.Props.C05"],
    "required_theorems": [
        "GunYu.Props.C05.disk_reader_delivers",
        "GunYu.Props.C05.disk_history_records_appends",
        "GunYu.Props.C05.disk_snapshot_reader_delivers",
        "GunYu.Props.C05.disk_gc_keeps_contiguous_suffix",
        "GunYu.Props.C05.disk_range_contiguous",
        "GunYu.Props.C05.disk_refines",
        "GunYu.Props.C05.disk_closed_reader_read_fails",
        "GunYu.Props.C05.disk_closed_reader_frozen",
        "GunYu.Props.C05.disk_invalidation_closes_readers",
        "GunYu.Props.C05.disk_reader_stays_open",
        "GunYu.Props.C05.disk_snapshot_hands_over",
        "GunYu.Props.C05.disk_gc_drops_only_unreferenced_snapshot",
        "GunYu.Props.C05.disk_reader_progress",
        "GunYu.Props.C05.disk_valid_iff_readable",
        "GunYu.Props.C05.disk_snapshot_offered_iff_complete",
        "GunYu.Props.C05.mem_invariant",
        "GunYu.Props.C05.mem_invariant_settled",
        "GunYu.Props.C05.mem_history_records_appends",
        "GunYu.Props.C05.mem_closed_writer_drops_pending",
        "GunYu.Props.C05.mem_refines",
        "GunYu.Props.C05.mem_index_contiguous",
        "GunYu.Props.C05.mem_reader_delivers",
        "GunYu.Props.C05.mem_reader_delivers_stmt_holds",
        "GunYu.Props.C05.mem_valid_iff_readable",
        "GunYu.Props.C05.mem_open_stream_reader",
        "GunYu.Props.C05.mem_snapshot_offset_needs_handover",
        "GunYu.Props.C05.mem_valid_uncovered_is_snapshot_replay",
        "GunYu.Props.C05.mem_snapshot_offered_complete_or_live",
        "GunYu.Props.C05.mem_snapshot_reader_delivers",
        "GunYu.Props.C05.mem_snapshot_shape",
        "GunYu.Props.C05.mem_full_invariant_settled",
        "GunYu.Props.C05.mem_refuses_discontinuous",
        "GunYu.Props.C05.mem_accepted_writer_is_continuous",
        "GunYu.Props.C05.mem_gc_keeps_contiguous_suffix",
        "GunYu.Props.C05.mem_snapshot_offered_iff_replayable",
        "GunYu.Props.C05.mem_finish_keeps_only_complete",
        "GunYu.Props.C05.mem_collected_snapshot_not_offered",
        "GunYu.Props.C05.mem_copy_step_faithful",
        "GunYu.Props.C05.mem_reset_empties_index",
        "GunYu.Props.C05.mem_stale_reader_has_no_successor",
        "GunYu.Props.C05.mem_recv_invariant",
        "GunYu.Props.C05.mem_recv_invariant_settled",
        "GunYu.Props.C05.mem_snapshot_holds_received",
        "GunYu.Props.C05.mem_offered_snapshot_complete",
        "GunYu.Props.C05.mem_snapshot_reader_delivers_received",
        "GunYu.Props.C05.mem_received_blocked_prefix",
        "GunYu.Props.C05.mem_received_whole_chunk",
        "GunYu.Props.C05.mem_received_only_from_appends",
        "GunYu.Props.C05.disk_answer_is_continuation",
        "GunYu.Props.C05.disk_answer_stays_continuation",
        "GunYu.Props.C05.disk_gc_keeps_end_or_clears",
        "GunYu.Props.C05.disk_callers_respect_protocol",
        "GunYu.Props.C05.disk_reader_delivers_for_callers",
        "GunYu.Props.C05.disk_refines_for_callers",
        "GunYu.Props.C05.disk_reader_delivers_next",
        "GunYu.Props.C05.disk_valid_offset_has_delivering_move",
        "GunYu.Props.C05.diskd_invariant",
        "GunYu.Props.C05.diskd_refines_per_id",
        "GunYu.Props.C05.diskd_parked_is_closed",
        "GunYu.Props.C05.diskd_reader_delivers",
        "GunYu.Props.C05.diskd_snapshot_reader_delivers",
        "GunYu.Props.C05.diskd_valid_iff_readable",
        "GunYu.Props.C05.diskd_snapshot_offered_iff_complete",
        "GunYu.Props.C05.diskd_reader_delivers_next",
        "GunYu.Props.C05.diskd_other_dirs_untouched",
        "GunYu.Props.C05.diskd_switch_back_restores",
        "GunYu.Props.C05.diskd_invalidation_closes_readers",
        "GunYu.Props.C05.diskd_extends_single",
        "GunYu.Props.C05.disk_snapshot_reader_delivers_next",
        "GunYu.Props.C05.disk_valid_snapshot_offset_has_delivering_move",
        "GunYu.Props.C05.diskd_verify_head_current_or_absent",
        "GunYu.Props.C05.diskd_callers_respect_protocol",
        "GunYu.Props.C05.diskd_keys_and_positive",
        "GunYu.Props.C05.mem_tail_invariant",
        "GunYu.Props.C05.mem_reader_delivers_next",
        "GunYu.Props.C05.mem_pump2_is_two_steps",
        "GunYu.Props.C05.mem_valid_offset_has_delivering_move",
        "GunYu.Props.C05.mem_window_readers_true",
        "GunYu.Props.C05.mem_window_segments_true",
        "GunYu.Props.C05.mem_window_pending_true",
        "GunYu.Props.C05.mem_window_no_wake_is_atomic",
        "GunYu.Props.C05.disk_reach_core",
        "GunYu.Props.C05.disk_reader_lag_bounded",
        "GunYu.Props.C05.disk_reach_end_core",
        "GunYu.Props.C05.disk_reader_reaches_end",
        "GunYu.Props.C05.disk_gc_never_adds_lag",
        "GunYu.Props.C05.diskd_parked_ids_distinct",
        "GunYu.Props.C05.diskd_lookup_unshadowed",
        "GunYu.Props.C05.diskd_park_keeps_distinct",
        "GunYu.Props.C05.diskd_quiet_step_is_cur_step",
        "GunYu.Props.C05.diskd_reader_lag_bounded",
        "GunYu.Props.C05.diskd_reader_reaches_end",
        "GunYu.Props.C05.disk_refines_spec",
        "GunYu.Props.C05.disk_spec_reader_in_window",
    ],
    "expected_facts": EXPECTED_FACTS,
    "harness": [
        # thorough tier: the real-goroutine harness C05chan runs under the Go race detector (runner: go_flags_<tier>);
        # the two sequential harnesses accept the flag too (vfutil.StartRaceLog is wired into all three) but are 10x slower
        # under it at thorough volume (disk: 11 min under load) - run by hand: add "go_flags_thorough": ["-race"] here
        {"name": "C05", "pkg": "./pkg/store/", "test": "TestVerifC05"},
        {"name": "C05mem", "pkg": "./syncer/", "test": "TestVerifC05mem"},
        {"name": "C05chan", "pkg": "./syncer/", "test": "TestVerifC05chan", "go_flags_thorough": ["-race"]},
    ],
    "driver": "drv_C05",
    "rule": "generated operation sequences (150-250 ops per case; LogSize 32..256, MaxSize 2..7 segments or 0) executed sequentially "
            "against the REAL store.Storer on a temp dir (collector stopped and invoked through VerifGcLog; AOF writer driven through "
            "AofRotater.write, snapshot writer through RdbWriter.Start/ingest fed by a step reader, readers through "
            "AofRotateReader.read / RdbReader.read; a quarter of the reads force a collector pass INSIDE the reader's rotation step via "
            "its close observer) and against the REAL MemoryChannel inside a testing/synctest bubble (writers through Start/ingest, "
            "readers through Start/copy loop/pipe, synctest.Wait after every op; Start sometimes delayed so that segments stay pinned; "
            "appends that block on capacity stay blocked until space is freed). After EVERY op: IsValidOffset at the offsets around every "
            "boundary, GetOffsetRange, GetRdb, LatestOffset/StartPoint, and the internal index (segments with sizes and reference counts, "
            "snapshot, directory listing / totalSize) are compared line by line with the Lean model; every byte read is compared with the "
            "model and, independently, with the bytes the harness wrote at that offset (monitor), plus: valid => readable, offered snapshot "
            "=> complete or live, invalidated reader ends or fails, no operation hangs (every read has a 1.5 s budget, whole-test watchdog). "
            "SetRunId with the SAME id (StartPoint -> VerifyRunId at every source reconnect) is issued at any time with readers and writers open, "
            "an id switch with readers open. Third harness C05chan (monitor only, real time, both backends through the Channel interface): "
            "NewAofWritter/NewRdbWriter + Start (real ingest, snapshot and stream over ONE source connection), NewReader + ChannelReader.Start "
            "(real pump / copy loop, pipe, bufio) + IoReader, run-id wrappers (foreign id, '?', StartPoint at reconnect), reference-leak check after "
            "ChannelReader.Close / WaitCloser, chunks and segments up to 33 KiB / 40 KiB (memory also LogSize 0), 2.6 MiB through one pipe with a consumer that lags by more than pipe + buffered "
            "reader hold and tops its buffer up with Peek (the pipe's ring wraps), and a "
            "concurrent phase (writer, 2 followers, 3 openers at the left edge, collector loop as real goroutines); invalidation observed where the "
            "property says, by CONSUMERS blocked on IoReader() (at the tail, behind it, replaying a snapshot being received): writer replacement, new "
            "snapshot, id switch and DelRunId must make every consumer end or fail within the budget and the call itself must return (found D28); "
            "readers opened continuously while the snapshot writer commits small snapshots (D29). Disk harness: the rotation window (next file created, "
            "not yet indexed; real closeAof + openFile with a stop in between, reader polling at the tail, collector pass inside) followed by several "
            "segments with collector passes while the reader rests. Memory harness: the snapshot's own offset is valid only while the log starts there "
            "or is empty (hand-over, D30). C05chan reports as NOTES (counters, never violations) what C05 does not state: the wrappers' answers for '?' "
            "and StartPoint, a complete snapshot that is not offered, slow writers; the reference count after all readers closed is compared with the "
            "model (tie), not monitored. "
            "Session 4: SEVERAL RUN-ID DIRECTORIES in one disk store (Model/StoreDirs.lean, driver state DiskD): a third of the cases "
            "starts with one or two directories left by an earlier process (prologue: writer, appends, restart); generated ops SetRunId to an "
            "EXISTING directory (from a current id and from no current id), DelRunId of a FOREIGN id and of a missing id, VerifyRunId over "
            "mixes of missing ids / '?' / '' / other directories / the current id, restart (clean stop + NewStorer on the same base directory); "
            "ddump lists the files of every other directory; the oracle keeps one history per directory; monitor startpoint-not-latest: what "
            "VerifyRunId answers is LatestOffset() of the id it made current (the `ask` of the callers' protocol). Memory: mdump prints the bytes "
            "the offered snapshot HOLDS (all segments, fnv64) against the model's ghost of the bytes RECEIVED (Model/StoreMemRecv.lean), monitor "
            "snapshot-bytes-wrong: held == what the harness fed and the writer took, checked after every op whether or not a reader replays. "
            "dread / dreadgc are Disk.follow / Disk.followGc (Model/StoreProgress.lean), the functions of the catch-up theorems. "
            "Source facts (harness/extract/c05.go): c05_writer_offset_flow (every assignment to locSp / locSp.Offset in syncMeta, the syncData call, "
            "the DelRunId guard, aofSync / rdbSync's guard, DelRunId and writer constructors with arguments) pins what `callerAllows` transcribes; "
            "c05_fn_* digests pin the hand-transcribed functions behind `ask`, the directory operations, the two lock sections of NewAofWritter and "
            "the count behind the snapshot ghost. "
            "Session 5: the moves of the bounded-progress theorems (Props/C05Reach.lean: PMove.follow / followGc / other gc, append, other readers' ops) are exactly driven operations (dread, dreadgc, dgc, "
            "daofa, drdba, dopen / dread / dclose of other readers); THOROUGH tier: C05chan (the real-goroutine harness) runs under the Go race detector, reports become data-race violations (repository code on both sides) or infrastructure faults. "
            "DIMENSION AUDIT (session 5, last round) - every option / degenerate input below is FORCED by the generators and counted in the evidence (cfg_* / probe_* / op_* counters): "
            "channel.verifyCrc true AND false x (first open of a stream / of a snapshot / on the live segment | follow into a closed segment | follow into the LIVE segment | open after a restart) in the "
            "disk harness (cfg_verifyCrc_<v>_*), and - process-global configuration read by StoreChannel.NewReader - on the real-goroutine path of C05chan (verifying stream-only follow cases forced every third case, "
            "source-error cases); LogSize AT the 16-byte header size (every append rotates) and one byte above (cases 3 / 7 of every 10), memory LogSize 1 / 2 / 8; MaxSize BELOW one segment (1, LogSize/2, "
            "LogSize-15: every fifth disk case), memory MaxSize == LogSize (the configuration's clamp boundary) and two segments, MaxSize -1 (the configuration's 'unlimited'; the model gets 0) beside 0; "
            "collector passes with a snapshot reader open / a snapshot writer live (counted); the stream writer replaced at the SAME offset on an EMPTY live segment with a reader opened at that offset in "
            "between (forced composite op); writers and snapshots of DIFFERENT run ids at EQUAL left offsets (a sticky offset per case: file names equal across directories); the offsets 0, 1 and "
            "MaxInt64-1 probed after EVERY operation through the model, -1 by a monitor (valid only through an offered snapshot); one-byte reads and snapshots of one / two bytes; the source ending by EOF vs "
            "by a non-EOF error and a source whose Read returns (0, nil) (C05chan; both ingest loops guard n > 0, so a zero-length APPEND cannot reach AofRotater.write / appendAof from the real writers - "
            "not drawn as an operation; zero-byte READS are not drawn either: bufio never passes an empty buffer). Source fact c05_package_state: the package-level variables of the anchor files "
            "(fixHeader, errOrphaned, two metric vectors: none assigned after init) and the process-global configuration they read (config.GetSyncerConfig().Channel.VerifyCrc). NOT drawn, judged outside the "
            "input space: a writer at offset 0 (PosOps, see assumptions) or near MaxInt64 (left + size overflows; no Redis history gets there), stray / foreign files inside a run-id directory and "
            "header-only segment files at a restart (unclean stops are C08's reopen), a zero-size snapshot (refused by the input since 32a41ef). "
            "distinct_nontrivial = cases with rotation and a reader that crossed a segment boundary",
    "trusted": [
        "testing/synctest quiescence (memory harness): after synctest.Wait every goroutine of the channel is durably blocked",
        "reference counts are derived from the reader list in the model; the harness compares them with rwRef / readers.Load() after every op",
    ],
    "assumptions": [
        "callers' protocol (Disk.okOp / DiskD.okOp), stream-writer clause: DERIVED, no clause looks at the cache in the state of the call (r4): the caller model "
        "(Proofs/StoreCaller.lean over one directory, Proofs/StoreDirsCaller.lean over several) allows NewAofWritter(off) only when the run KNOWS `asked off` (the answer of its "
        "LatestOffset / VerifyRunId query, or the offset of the snapshot it announced with NewRdbWriter) or `cleared` (it issued DelRunId of the current id, or its query found "
        "nothing); the knowledge is carried through reads, collector passes, snapshot chunks, SetRunId of the same id and SetRunId of the FIRST id it asked with (fresh directory "
        "or rename), and is DROPPED by SetRunId of any other id, DelRunId of a foreign id, a bare VerifyRunId and a restart (disk_callers_respect_protocol, "
        "diskd_callers_respect_protocol). What remains assumed, each pinned or cited: (1) input.go / replica.go pass exactly these values and set exactly the first id they asked "
        "with (source fact c05_writer_offset_flow; C06 delivers_something, C16 follower_contiguous: resp.GetOffset() >= sp.Offset is C16's); (2) `ask` happens with no writer open "
        "— true since 7c24089 (D37: syncData's early return left its writer behind; fact lines syncData: rdbWriter.Close() / aofWriter.Close(), syncIncr / syncRdb: writer.Close()); "
        "(3) PosOps: every writer is created at an offset > 0. Without it VerifyRunId skips a directory holding ONLY A SNAPSHOT AT OFFSET 0 after having switched to it "
        "(`newest == 0 -> continue`) and the clearing sequence DelRunId(current); SetRunId(first id) LOADS that directory: driven on the real Storer (r4 residual i: VerifyRunId "
        "[id1,id2] answers id2/510, DelRunId(id2), SetRunId(id1) loads (0,12), GetAofWritter(300): IsValidOffset(1..299) true, GetReader(100) not found; model = code line by line; "
        "example in Props/C05Dirs.lean). Judged not a finding: a history snapshotted at offset 0 has no predecessor id holding data (PSYNC2 offsets continue across a fail-over), "
        "and the cache stores what it is told; the root (`newest == 0` read as 'holds nothing') is shared with C06/C16's models of StartPoint and left alone. "
        "(4) r4 residual ii, driven on the real Storer and since REPAIRED at its source in /repo 23dcc75 (C06 owner: syncMeta keeps the offset it asked PSYNC with; branch 4 no longer "
        "re-reads the cache with GetOffsetRange — the two fact lines are gone from c05_writer_offset_flow, the caller model never had a second read): before it, a collector pass that "
        "emptied the cache between GetRdb and GetOffsetRange made syncMeta pass NewAofWritter(-1). A NEGATIVE writer offset is accepted by both backends (disk: file -1.aof, the bytes "
        "are stored and served at the offsets the writer claimed): judged not a C05 issue — the cache is faithful to the offset it is given, an empty cache accepts any offset "
        "(`cleared`), no caller passes a negative offset any more (input.go: the PSYNC offset or the FULLRESYNC offset; replica.go: resp.GetOffset() = the leader's reader.Left(), a "
        "valid offset of the leader's cache), and offsets are naturals in the model. The disk backend itself does not refuse a discontinuous writer (the memory backend does: mem_refuses_discontinuous)",
        "a replication-id SWITCH on the disk backend happens between two runs of the input: no writer open (readers may be open and are closed by it); "
        "the same id again is allowed at any time (D27 fixed: it no longer re-scans)",
        "thread interleavings INSIDE one mutex-protected step are outside the step-level model (the rotation window of tryReadNextFile is driven separately, monitor only); "
        "a real-goroutine stress phase (writer closed while an endless 1-byte source is being ingested) supports the tie and found D26",
        "memory harness: an append is limited to one mutex-protected piece whenever the collector could run inside it (between two pieces the copy goroutines race with the writer)",
        "several run-id directories (DiskD): SetRunId to another id (fresh, rename, existing directory), DelRunId of a foreign id, VerifyRunId that switches and restart "
        "happen with no writer open (DiskD.okOp; the generator issues them between two runs of the input); a restart is a CLEAN stop (unclean stops are C08's); "
        "SetRunId(\"\") / (\"?\") are no-ops in model and — since 02e084c (D38: '?' renamed the current directory) — in the code, generated (dsetrun ? / dsetrun -); "
        "not operations of the model because unreachable: SetRunId's `!ExistReplId(old)` branch (the current directory always exists once D38 is fixed), initDataSet returning nil "
        "(its Walk callback swallows every error: dead code), and the scan-before-close order of newRunId (equal to close-then-scan when no writer is open, which DiskD.okOp requires); the ghost history of a directory is parked with it (a rename relabels it)",
        "memory window theorem (mem_window_readers_true): SrcOkW — every chunk handed to a stream writer is the source's bytes at the end of that writer's segment, "
        "one source function for the whole list (two histories with different bytes at one offset are outside it); the window is NOT driven on the real code "
        "(no yield point between the two lock sections; c05_fn_MemoryChannel.NewAofWritter / appendAof / ensureCapacityLocked / finishAof digests pin the transcription; "
        "mem_window_no_wake_is_atomic ties the window model to the driven atomic step)",
        "C05chan is monitor-only (apart from the reference count after close): with real pump goroutines the segment a reader holds at a given instant is not a function of the op sequence; "
        "its real-time budgets are 10-20 s per wait (a machine that stalls a goroutine longer gives a false reader-stalls/invalidated-reader-hangs)",
        "the sequential harnesses diff reference counts, per-segment sizes and the directory listing with the model after every op: a change of the reference discipline "
        "is a correspondence DIFF (tie failure, no-failing-input-found), stricter than the property by design",
    ],
    "partial": [
        "memory backend: the global theorems (mem_invariant, mem_refines, mem_reader_delivers, mem_valid_iff_readable, mem_snapshot_offered_complete_or_live, "
        "mem_history_records_appends, mem_snapshot_reader_delivers, mem_snapshot_holds_received, mem_snapshot_reader_delivers_received, mem_tail_invariant, "
        "mem_reader_delivers_next) hold for ALL operation lists with NO hypothesis; what they do NOT say: (a) [closed in session 4] the ghost mReceived records the "
        "announcement and the bytes appendRdb reported as written, computed from the chunks and the count the append loop returns; an offered snapshot holds exactly them, "
        "a snapshot reader delivered their first pos bytes, a snapshot without writer is complete. The count is tied to the operation OUTPUT: "
        ".blocked n took exactly n bytes (mem_received_blocked_prefix), any other answer of a live, not already blocked writer took the WHOLE chunk (mem_received_whole_chunk); "
        "a retry's count is only bounded by what was waiting (no output to tie it to); `blocked n` with n > 0 is now DRIVEN (multi-piece snapshot appends whenever no copy goroutine runs; "
        "corpus s4_snapshot_append_blocks_after_prefix: blocked 8 / blocked 20); the harness compares the held bytes with what it fed after every op "
        "(monitor snapshot-bytes-wrong + recv field); "
        "(b) nothing is claimed of a copy loop after it returned or after its segment left the index (it ends or fails: step facts mem_stale_reader_has_no_successor, "
        "mem_reset_empties_index — that it cannot deliver OTHER bytes afterwards follows from mem_reader_delivers only while it holds an indexed segment; for heap segments "
        "(immutable, closed) it is the correspondence); (c) progress: one catch-up STEP is proved for both backends (disk_reader_delivers_next / disk_valid_offset_has_delivering_move: Disk.follow, also with a collector pass "
        "inside the rotation, delivers >= 1 byte of the history whenever the reader is below the writer's end; mem_reader_delivers_next: two copy-loop iterations deliver >= 1 byte; "
        "invariant mem_tail_invariant: every indexed segment but the writer's is closed and non-empty); mem_valid_offset_has_delivering_move: a covered offset below the end can be opened and the started reader delivers within two iterations); "
        "offsets SERVED BY THE SNAPSHOT: disk_snapshot_reader_delivers_next / disk_valid_snapshot_offset_has_delivering_move (a snapshot reader below what the file holds gets >= 1 byte; "
        "a snapshot without writer holds all size bytes); the MEMORY counterpart for snapshot readers is not proved (needs 'every snapshot segment but the writer's is closed and non-empty'); "
        "REACHING the end: DISK proved in session 5 as bounded progress (see the disk-progress item below); MEMORY: only the two-iteration step above is proved, the composition over a schedule "
        "(copy loops, appends, collector passes inside appends) is NOT; nothing about the consumer side of the pipe (a full pipe blocks the copy loop: writeAll); (d) the consumer side (pipe, bufio) is modelled "
        "(buf/bbuf) but `out` is what the copy loop wrote to the pipe — that the consumer reads exactly `out` is the consume step's definition + correspondence",
        "memory model vs code, differences that remain (each property-neutral, reasons): (1) [modelled in session 4] NewAofWritter's two lock sections are three steps of "
        "Model/StoreMemWindow.lean (install / oldWake / finishOld, any operation in between); proved for ALL such lists under SrcOkW: every reader holding an indexed segment "
        "delivered src[start,pos), every indexed segment holds the source's bytes (mem_window_readers_true, mem_window_segments_true) although the index is no longer contiguous "
        "after the stray append (example exWindowOps). NOT proved for the window model: the shape theorems (MemInv: contiguity, valid <-> readable, range) — they are false there by "
        "design of the code (continuousAofStartIndexLocked cuts the range at the overlap: offsets below it become invalid, never wrongly valid — argued, not proved); the window is not driven; "
        "(2) a writer that dies WHILE BLOCKED may run one more collector pass before it sees EOF (ensureCapacityLocked selects between spaceNotify and done, both ready): it can drop the closed, "
        "unreferenced segment it just wrote — retention only; the generator closes/replaces a blocked writer only while the oldest segment is pinned by a reader, where the outcome is a function "
        "of the operations; (3) `rdbFail` models the source failing between two chunks; a Read that returns the LAST bytes together with an error (io.Reader allows it, bufio over a socket rarely does) "
        "drops a complete snapshot in the code and is not an operation of the model — it offers less, never other bytes; (4) the model's rdbAppend accepts a chunk beyond the announced size (the code's ingest clamps); "
        "(5) copyStep moves the whole rest of a segment in one step (code: 4096/8192-byte iterations, equivalent for append-only data)",
        "memory validity: an offset BELOW the offered snapshot's is valid in model and code and is served by a replay of the snapshot even when the log no longer starts at the snapshot's offset "
        "(snapshot (500,4), log trimmed to 508: valid(499) -> the real store serves the complete snapshot 01020304; valid(500) = false -> the source is asked; corpus r3 line): no byte of another "
        "offset is served and no gap is bridged from the cache, so this is not counted as a violation of 'valid only if such a read is possible'; a memory counterpart of disk_snapshot_hands_over is false by design (a3509d3 keeps the collector's order)",
        "real-time: no verdict of the C05 harnesses depends on wall-clock time any more — budgets are counted in polls of a reference goroutine (vfutil.StartBudget, twice the nominal duration), "
        "the hard limit (10 min) and the whole-test watchdogs end the run as an infrastructure failure (broken tie), never as a violation",
        "disk refinement is proved as `abs s = suffix of the written history from abs.base` in every reachable state (disk_refines) + the per-op history lemma; "
        "abstract specification, STREAM PART (session 5, Proofs/StoreSpec.lean, Props/C05Spec.lean): spec state = byte history since the last reset (base, hist), first held offset lo, open stream readers "
        "(start, pos, out); abstraction function Disk.spec; ONE importable statement disk_refines_spec: in every reachable state the spec state is well formed (window inside the history, every open "
        "reader inside [lo, end], delivered exactly hist[start,pos)), the bytes the index holds ARE the window hist[lo..], ANY next operation is a history-level step (history kept / extended by exactly the "
        "appended chunk / replaced by an empty one) and, if it respects the protocol, leads to a well-formed spec state. What it is NOT: a labelled transition system with a reader-level step relation for "
        "every operation (that `lo` only moves forward without a reset, that a step changes only the acting reader's position, which operations remove readers) - those facts exist per operation class "
        "(disk_gc_keeps_contiguous_suffix, disk_reader_stays_open, disk_invalidation_closes_readers, and for schedules Proofs/StoreReach quiet_frame / follow_move) but are not assembled into one "
        "simulation relation; the SNAPSHOT (offered / being written) is not part of the spec state; C06 / C16 do not import it yet (their owners' files)",
        "regeneration: the segment-name / header parsing and the offset arithmetic (ParseRdbFile, '<left>.aof', the 16-byte header) are NOT regenerated by gofn (session 5 task, not done: they go through "
        "strconv / strings.Split / binary.LittleEndian, outside the translator's subset); they stay tied by the directory listing and byte comparison of the harness and by C08's syscall-level model",
        "findings of the real-goroutine phases (concurrent phase, invalidation, snapshot race, memory stress) are not replayable inputs: the replay names backend, scenario and seed only",
        "concurrency: real-goroutine phases (memory writer close vs rotation; C05chan: writer + followers + openers + collector) are probabilistic support. Session 5: in the THOROUGH tier the real-goroutine "
        "harness C05chan (both backends through the Channel interface: writer, followers, openers, collector, invalidation, snapshot commit race, abandoned writers) is built and run with the Go race detector (go test -race through the overlay; runner key go_flags_thorough); the race runtime's reports are captured (descriptor 2 -> "
        "<out>/<harness>.race.log, vfutil.StartRaceLog), attributed to the scenario they appeared in and classified: both conflicting accesses made by repository code = VIOLATION data-race "
        "(replay: harness, scenario with backend / kind / number / seed, the two frames, the report), an access made by harness code = infrastructure fault; in either case the testing package fails "
        "the run (broken tie). Unchanged tree: no report (seed 1); the two sequential harnesses (C05 disk incl. its rotation-window goroutines, C05mem under synctest incl. its stress phase) "
        "were run under the detector once at thorough volume in session 5 (no report) and are not part of the tier for cost (10x slower). The QUICK tier does not run the detector (a race that never corrupts an answer is invisible there). "
        "A race is a witness of an unsynchronised access pair, found only on interleavings the run happened to take - absence of reports proves nothing",
        "disk progress: disk_reader_delivers_next is the catch-up STEP (AofRotateReader.read delivers >= 1 byte below the writer's end, with or without a collector pass in the rotation). "
        "Session 5 composes it (Proofs/StoreReach.lean, Props/C05Reach.lean): over ANY schedule of the reader's own moves (Disk.follow / Disk.followGc = the driven dread / dreadgc, any buffer > 0), "
        "collector passes, appends, snapshot chunks and every move of OTHER readers, from any reachable state, the reader stays valid, never moves back, delivered exactly history[start,pos) and "
        "its distance to the writer's end is <= lagBound (-1 per own move while positive, + chunk length per append, 0 for everything else): disk_reader_lag_bounded; with no append in the schedule "
        "and at least (end - pos) own moves it STANDS AT THE END having delivered everything: disk_reader_reaches_end. The liveness reading's fairness assumption ('the reader is scheduled k times "
        "after the last append') is thereby a HYPOTHESIS of a proved safety theorem; no interleaving of collector passes stalls it (disk_gc_never_adds_lag). NOT covered: schedules containing an "
        "operation that invalidates the reader (reset, writer replacement, id switch, close: `quiet` excludes them - the reader then ends or fails, disk_invalidation_closes_readers); the reader "
        "INSIDE a rotation step when the schedule starts (prev = some: its next move is advRelease; `Follows` asks prev = none, which is what the real reader is between two read() calls); the "
        "worst-case count is bytes, not segments (a move with a buffer >= the segment delivers the whole rest of its file, the bound does not use it); the real reader's WAITING (100 ms sleeps at the "
        "tail) is not modelled; lifted to several directories for the current index (diskd_reader_lag_bounded / diskd_reader_reaches_end; a quiet op on DiskD is the op on the current index: diskd_quiet_step_is_cur_step)",
        "memory backend, writer ended by a SOURCE ERROR: the model's writer end is `aofClose` (Close(): the segment is closed with err = nil) - that finishAof closes the segment WITH the source's error when "
        "ingest fails is not an operation of the model and not an op of the sequential memory harness. It is driven by the real-goroutine harness only (C05chan scenario source-error, both backends, EOF and "
        "non-EOF endings, chunk sizes 10/48/49/120 at LogSize 64, reader opened below the boundary after the input reconnected; monitors reader-fails-without-invalidation, reader-stalls, "
        "continuing-writer-refused, valid-but-unreadable). It found D39 (fixed, /repo f794df4: the dead writer's error failed every reader crossing that segment's end, also after a new writer had "
        "continued). Scratch mutation M5 (finishAof keeps the EMPTY closed segment in the index) was analysed with it: the only input on which the kept segment changes what a reader delivers was this class "
        "(writer dies by a non-EOF error exactly after a rotation -> the reader failed at the empty segment); since f794df4 a closed segment with a successor is followed whatever it was closed with, an empty "
        "closed segment without successor ends the reader exactly like the end of the segment before it: M5 is behaviour-neutral for readers (it stays a broken tie: index listing + digest) - argued on the code, "
        "not a theorem (the model has no empty closed segments: TailInv)",
        "several directories: DInvD carries the invariant of every parked directory; KeysInv (no directory under '' / '?' / the current id) and PosD are proved for all runs "
        "(diskd_keys_and_positive); session 5: SHADOWING IS UNREACHABLE - the ids of the parked directories are pairwise different and none is the current id after ANY operation list, "
        "no protocol hypothesis (diskd_parked_ids_distinct; Proofs/StoreDirsDistinct.lean: parkCur adds the current id, which KeysInv keeps out of the keys, dirErase only removes), so dirLookup's "
        "first match is THE directory of the id (diskd_lookup_unshadowed); in the code the question cannot arise (a file system holds one directory per name) - the theorem says the model's LIST "
        "never uses the freedom a directory does not have; the tie for parked directories is file NAME:SIZE per directory in ddump, contents only when switched back and read; the file-level content of parked directories (headers, CRC) is C08's model, here a parked "
        "directory is the Disk value it was closed as; VerifyRunId's answer is compared (dverify ok <offset>) and monitored (startpoint-not-latest) but StoreChannel.StartPoint's mapping of it "
        "('?' for offset < 0) is C06's",
    ],
}

MANIFEST = {
    "text": "Step-level Lean models of the disk index (Storer/dataSet/AofRotater/AofRotateReader/RdbWriter) and of MemoryChannel; a reader's move to the next segment is two "
            "steps so the collector can interleave. Proved for ALL operation lists respecting the callers' protocol (disk): every open stream reader delivered exactly the "
            "bytes appended at [start,pos), snapshot readers exactly the snapshot bytes, closed/invalidated readers fail and never deliver again, resets and writer "
            "replacement / id switch close readers and nothing else does, a valid reader can always make a step, held range contiguous, IsValidOffset <-> GetReader finds data, "
            "snapshot offered <-> complete or being written and its offset lies in a held segment, collector drops only an unreferenced prefix / snapshot. "
            "Memory (MemoryChannel): the same is proved GLOBALLY for ALL operation lists with no hypothesis (invariant MemInv, preserved by every operation incl. capacity-blocked "
            "appends, retries, collector passes inside appends, resets, every single copy-loop iteration): the cache holds the suffix of the written history from its base, every "
            "copy loop holding an indexed segment wrote to its pipe exactly the bytes appended at [start,pos), valid <-> a reader can be opened (the snapshot's own offset only while "
            "the log starts there), an offered snapshot is live or completely received with every received byte held, and a copy loop replaying it wrote exactly the first pos bytes it holds. "
            "Session 4: the offered memory snapshot holds, and its readers deliver, exactly the bytes RECEIVED for the last announcement (ghost computed from the chunks and the "
            "append's count); the disk writers' continuity protocol is derived from what the callers pass (the answer of an earlier LatestOffset query stays a continuation through "
            "reads, collector passes and id switches); the disk theorems hold per id with several run-id directories in one store (switch to an existing directory, delete of a "
            "foreign id, VerifyRunId, restart; switch away and back restores); progress as safety on both backends (a reader below the writer's end has a delivering step; every "
            "indexed memory segment but the writer's is closed and non-empty); NewAofWritter's two lock sections as three steps: readers deliver the source's bytes through the window. "
            "Session 5: the disk reader REACHES the writer's end - bounded progress over any schedule of its own moves, collector passes, appends and other readers' moves "
            "(lag <= counted bound; fairness as a hypothesis: disk_reader_reaches_end); parked directories never share an id (no shadowing: diskd_parked_ids_distinct); thorough tier under the Go race detector. "
            "Tie: generated op sequences on the real Storer and the real MemoryChannel (synctest), every answer, "
            "reference count and byte compared with the model and with independent bookkeeping; source facts pin the callers' offset flow and the hand-transcribed functions.",
    "note": "trusted: Lean kernel, harness, synctest quiescence; assumptions: input.go / replica.go pass the values the caller model names (pinned as source facts), no writer open "
            "at an id switch / restart, SrcOkW for the window theorem; partial: disk: bounded progress with the fairness hypothesis explicit, memory: catch-up STEP only; no abstract transition system; name/header parsing not regenerated; the NewAofWritter window is modelled and proved but not driven, "
            "the count of a RETRIED snapshot append is tied by the harness only. "
            "Defects fixed: D14 (memory+disk), D17, D20-D31, D36-D39 (D39 = memory: a segment closed with the dead writer's error failed every reader crossing it after the input had reconnected; see known_findings.d/C05.json; D37 = RedisInput.syncData left the writer it had created behind on its early return: a snapshot nobody "
            "would write stayed offered; D38 = Storer.SetRunId('?') renamed the current directory; D31 = reader orphaned by the trim of an empty live segment; D27 = re-scan with open readers at every source reconnect, D28 = reset dead-lock with two tailing readers, D29 = snapshot reader open vs commit race, D30 = memory collector breaks the snapshot->log hand-over, fixed by c06).",
    "technique": "Lean 4 proof (invariant over arbitrary operation lists, step-level refinement) + differential correspondence on generated operation sequences",
}
