PROP = {
    "lean_modules": ["GunYu.Props.C05"],
    "audit_namespaces": ["GunYu.Props.C05"],
    "required_theorems": [],
    "expected_facts": {},
    "harness": [
        {"name": "C05", "pkg": "./pkg/store/", "test": "TestVerifC05"},
        {"name": "C05mem", "pkg": "./syncer/", "test": "TestVerifC05mem"},
    ],
    "driver": "drv_C05",
    "rule": "",
    "trusted": [],
    "assumptions": [],
    "partial": [],
}

MANIFEST = {
    "text": "",
    "note": "",
    "technique": "",
}
