# the etcd double imports go.etcd.io/etcd/api/v3 (indirect in /repo/go.mod). ./check runs every `go test` on a private
# copy of go.mod (-modfile), so /repo/go.mod is never rewritten; the double's files additionally carry the build tag
# verifc15etcd (the later -tags flag replaces the runner's `-tags verif`) so that no OTHER build of ./pkg/cluster under
# the overlay - a hand-run `go test` without -modfile - compiles them.
PROP = {
    "lean_modules": ["GunYu.Props.C15", "GunYu.Props.C15Etcd", "GunYu.Props.C15Ticker"],
    "gens": ["c15etcd", "c15ticker"],
    "audit_namespaces": ["GunYu.Props.C15"],
    "required_theorems": [
        "GunYu.Props.C15.at_most_one_holder",
        "GunYu.Props.C15.at_most_one_holder_always",
        "GunYu.Props.C15.holder_is_in_store",
        "GunYu.Props.C15.success_only_holder_or_free",
        "GunYu.Props.C15.refused_when_foreign",
        "GunYu.Props.C15.failed_renew_reports_loss",
        "GunYu.Props.C15.resign_only_own",
        "GunYu.Props.C15.lost_resign_only_own",
        "GunYu.Props.C15.expiry_bound",
        "GunYu.Props.C15.expiry_bound_campaign",
        "GunYu.Props.C15.holder_until_deadline",
        "GunYu.Props.C15.takeover_possible",
        "GunYu.Props.C15.at_most_one_acting",
        "GunYu.Props.C15.acting_intervals_disjoint",
        "GunYu.Props.C15.acting_has_lease",
        "GunYu.Props.C15.at_most_one_acting_with_drift",
        "GunYu.Props.C15.ticker_returns_by_deadline",
        "GunYu.Props.C15.ticker_leads_within_hold",
        "GunYu.Props.C15.ticker_failed_renewal_stops_leader",
        "GunYu.Props.C15.ticker_stops_before_lease_deadline",
        "GunYu.Props.C15.ticker_blocked_renewal_stops_leader",
        "GunYu.Props.C15.election_id_configured",
        "GunYu.Props.C15.distinct_addresses_distinct_ids",
        "GunYu.Props.C15.renew_le_third",
        "GunYu.Props.C15.lease_bounds",
        "GunYu.Props.C15.two_renewals_within_ttl",
        # etcd election (cluster.metaEtcd)
        "GunYu.Props.C15.etcd_at_most_one_holder",
        "GunYu.Props.C15.etcd_at_most_one_holder_always",
        "GunYu.Props.C15.etcd_holder_is_first_created",
        "GunYu.Props.C15.etcd_success_only_first_or_free",
        "GunYu.Props.C15.etcd_refused_when_foreign",
        "GunYu.Props.C15.etcd_failed_renew_reports_loss",
        "GunYu.Props.C15.etcd_resign_only_own",
        "GunYu.Props.C15.etcd_expiry_bound",
        "GunYu.Props.C15.etcd_takeover_possible",
        # clusterTicker with election calls of any duration
        "GunYu.Props.C15.tickd_leader_within_hold",
        "GunYu.Props.C15.tickd_leads_within_hold",
        "GunYu.Props.C15.ticker_retry_is_two",
    ],
    # Only the part of cmd/syncer.go that NO harness executes is pinned by source facts: runCluster after its first
    # campaign (syncer start/stop around the ticker, resign): the order of the calls that matter and the control-flow
    # skeleton (log/metric statements removed, string literals blanked, sha256/64 - a changed message or comment does
    # not alarm). Everything else (scripts, Campaign/Renew/Resign/Leader glue, run(), runCluster up to the first
    # campaign, clusterTicker/clusterRenew/clusterCampaign, config fix) is executed and needs no fact.
    "expected_facts": {
        "lease_skel_runCluster": "cb26da7fa3825564",
        "lease_runcluster_order": ["sc.clusterCampaign", "sy.RunLeader", "elect.Leader", "sy.RunFollower",
                                   "sc.clusterTicker", "sy.Stop", "syncerWait.WgWait", "elect.Resign"],
        # loop shape of the ticker (executed under virtual time as well): what the ticker theorems are about
        "lease_skel_clusterTicker": "b413045d51e23d82",
        "lease_ticker_retry": "2",
        "lease_timer_arm": "time.Until(leaseFrom.Add(sc.leaseHold()))",
        "lease_timer_rearm": "time.Until(sentAt.Add(sc.leaseHold()))",
        "lease_hold_expr": "time.Duration(int(cc.LeaseTimeout/time.Second))*time.Second - cc.LeaseRenewInterval",
        # etcd: the part of etcd_cluster.go / config.go that cannot run without a server (NewEtcdCluster): how the
        # session is made and where its TTL comes from. The requests themselves are regenerated (Gen/EtcdElection.lean).
        "etcd_key_expr": 'fmt.Sprintf("%s%x", e.keyPrefix, e.sess.Lease())',
        "etcd_try_args": ["ctx", "e.id"],
        "etcd_session_args": ["cli", "concurrency.WithTTL(cfg.Ttl)"],
        "etcd_newelection_fields": ["cli: c.cli", "keyPrefix: electionPath", "sess: c.sess", "id: id"],
        "etcd_ttl_assign": ["cc.MetaEtcd.Ttl = int(cc.LeaseTimeout / time.Second)"],
    },
    "harness": [
        {"name": "C15", "pkg": "./pkg/cluster/", "test": "TestVerifC15", "timeout_quick": "10m", "timeout_thorough": "40m"},
        {"name": "C15etcd", "pkg": "./pkg/cluster/", "test": "TestVerifC15Etcd", "timeout_quick": "10m", "timeout_thorough": "30m",
         "go_flags": ["-tags", "verif,verifc15etcd"]},
        {"name": "C15fix", "pkg": "./config/", "test": "TestVerifC15Fix"},
        {"name": "C15cmd", "pkg": "./cmd/", "test": "TestVerifC15Cmd", "timeout_quick": "10m", "timeout_thorough": "30m"},
        {"name": "C15tick", "pkg": "./cmd/", "test": "TestVerifC15Tick", "timeout_quick": "10m", "timeout_thorough": "30m"},
    ],
    "driver": "drv_C15",
    "rule": "event lists: corpus; ALL lists of length<=4 (quick) / <=5 (thorough) over {campaign a, campaign b, renew a, resign a, resign b, "
            "tick ttl/2, tick ttl+1ms, lost-but-applied campaign b}; generated lists of 1-40 events with 1-4 instances (own TCP connection "
            "each, ids incl. empty / 'false' / non-UTF-8), 1-2 election keys, ttl 1..600 s (ttl=0 corner for correspondence only), arbitrary "
            "initial store contents (foreign, own-from-earlier-incarnation, expired), ticks aimed at lease expiry -1/0/+1 ms, lost campaigns "
            "and resigns (error reply or dropped connection, script executed or not); request-level interleavings: p:<call>:<key>:<id>:<k> starts a "
            "call whose (k+1)-th Redis request is held by the store while other instances act and the clock moves, g:<id> releases it (ALL windows "
            "of length<=2 quick / <=3 thorough over {tick ttl/2, tick ttl+1, campaign b, renew b, resign b} x call kind x k in {1,2} x 5 prefixes x 3 "
            "suffixes, plus random ones; for one-request calls p = the plain call). Every event: result of the REAL "
            "redisElection.Campaign/Renew/Resign/Leader via NewRedisCluster + the real RESP client over loopback, live store contents and "
            "holder set, compared line by line with the Lean model (scripts = regenerated AST). lua ops: the double's Lua interpreter on the "
            "script text received at run time vs Lean evalLua on the regenerated AST, random stores/KEYS/ARGV incl. malformed ttl. "
            "fix ops: real (*ClusterConfig).fix on a 32x32 grid of boundary durations + generated int64 durations vs Lean fixCfg; cfgfix ops: whole "
            "yaml configurations through InitSyncerConfig (cluster section with/without groupName, metaEtcd, lease/renew on a 13x13 grid, fields "
            "omitted) - a surviving cluster section must be usable (ttl >= 1, 0 < renew <= lease/3, renew < ttl). C15cmd: ident ops: every server "
            "section (listen unset / host IP / 0.0.0.0 / loopback / ':port' / localhost x listenPeer unset / IP / 0.0.0.0 / host name / [::]) "
            "with and without cluster section through the real InitSyncerConfig, real fixConfig and the REAL (*SyncerCmd).run() (builds the "
            "lease-store client with its own ttl, registers, runCluster derives key and election id and campaigns through the real redis "
            "election; the double holds the reply of that first EVAL while the harness reads the store and closes the run); contend ops: pairs "
            "of two hosts' server sections (quick: 12x12 sub-matrix, thorough: 30x30) run that way at one instant on the store's clock; "
            "leasettl ops: 12x8 grid of leaseTimeout x leaseRenewInterval (incl. unset), ttl as written to the store by the real run() and the "
            "renew period vs Lean ttlSeconds/fixCfg; ticker ops: the REAL (*SyncerCmd).clusterTicker (+ real clusterRenew/clusterCampaign/leaseHold) "
            "under testing/synctest with a scripted Election whose answers are ok / ErrNotLeader / error / A CALL THAT NEVER RETURNS, ALL "
            "scripts of length<=4 (quick) / <=5 (thorough) for both roles (R 1.5 s, lease 5 s, campaign sent 200 ms before), each leader "
            "script of length<=2 also followed by 10 failures, + random scripts, periods 1-200 s, leases >= 3 periods: calls with their "
            "virtual instants, when/how the syncer's wait is closed and when clusterTicker RETURNS vs Lean tickerRun (exact periods / same-instant reaction are compared THERE only); shared "
            "ops: one client shared by two elections used concurrently while a reply is stalled. "
            "CLUSTER-type lease store (C15): the same event lists (corpus `ctrace`; ALL lists of length<=3 quick / <=4 thorough over {campaign a, campaign b, "
            "renew a, resign a, tick ttl/2, tick ttl+1, lost-but-applied campaign b, slot of the key -> node 0, -> node 1, leader}; generated lists with slot "
            "moves mixed in) through NewRedisCluster with a cluster-type configuration = the REAL cluster client (EVAL routed by the key's slot, GET located "
            "with COMMAND GETKEYS, -MOVED handled by re-issuing on the node named, CLUSTER SLOTS refresh) against a 3-node double sharing the lease key space "
            "(`mv:<key>:<node>` re-assigns the slot, its keys move with it); same model, same monitors (counters cluster_requests_moved_and_reissued, "
            "cluster_trace_with_redirect). ETCD election (C15etcd): the REAL etcdElection.Campaign/Renew/Resign/Leader + the real clientv3 KV/Txn code + the "
            "real concurrency.Session on an in-process etcd double that receives the protobuf requests (no etcd binary): event lists of session grants "
            "(lease ids incl. 2^63-1 and ids whose hex collides across prefixes - correspondence only), keep-alives that arrive or not, Session.Close, ticks "
            "aimed at lease deadlines -1/0/+1 ms, Campaign/Renew/Resign with the request lost before or after it was applied (Campaign: its Txn or its "
            "Delete), a Campaign HELD between its transaction and its Delete while others resign / expire / renew / campaign (ALL windows of length<=2 "
            "quick / <=3 thorough x 3 prefixes x 3 suffixes x Delete ok / lost / applied-lost), ALL lists of length<=3 quick / <=4 thorough over 12 events "
            "of two sessions, generated lists of 2-40 events with 1-4 sessions on 1-3 prefixes; every result, the key space with create revisions and "
            "leases, the store revision, the REAL fields e.key / e.rev of every election object and the holders vs Lean Etcd.step (requests = regenerated "
            "AST). Monitors (etcd): etcd-two-holders, etcd-success-over-foreign-key, etcd-success-without-key, etcd-failed-renew-not-reported, "
            "etcd-told-leader-without-answer, etcd-foreign-key-changed, etcd-resign-released-foreign-key, etcd-key-without-lease (an election key not "
            "attached to its session's lease never expires). Tie-level only (a difference is a broken tie, not a violation): the requests each call "
            "issues (erequests op), the private fields e.key / e.rev and the store revision in the etrace lines. TICKER with calls of any duration (C15tick): the REAL clusterTicker "
            "under synctest, answers that take a scripted time (shorter than a tick, spanning one, spanning several = ticks kept / dropped by the Go "
            "ticker, longer than the hold) or never return, the wait closed by somebody else at a given instant or before the start, the campaign's answer "
            "arriving late (little hold left): ALL scripts of length<=3 quick / <=4 thorough over 7 answers for both roles, each short one with 4 outside "
            "closes, + random (periods 1-30 s); calls with send instants, close, return vs Lean tickerRunD (retry count and re-arm base regenerated from the source: the base counts as 'from the send' only if "
            "the re-arm expression is time.Until(x.Add(sc.leaseHold())) with x := time.Now() standing before the statement that starts the call AND x is "
            "assigned nowhere else in the function; re-assigned to time.Now() = 'from the answer' (the theorem then no longer builds); any other shape: "
            "the generator fails); every branch of clusterTicker counted (tickd_branch_*); monitor leads-past-its-lease on answered successes. contendsrc ops: two "
            "hosts whose configurations spell ONE source differently through the real InitSyncerConfig + run(): OBSERVATION only (counters contendsrc_*; two "
            "keys = two leases, outside the property; two leaders under one spelling are reported). "
            "Monitors on the real code (independent of Lean; each demands only what C15 states - inequalities relative to ttl, never the "
            "implementation's particular constants): two-holders, two-hosts-told-leader, success-over-foreign-lease, told-leader-without-answer, "
            "success-without-lease (told leader => the store holds the caller's value at least until its deadline), failed-renew-not-reported, "
            "foreign-lease-changed, resign-released-foreign-lease, leads-past-its-lease (clusterTicker has not returned more than one ttl after the SEND of the "
            "last successful campaign/renewal - also when a call never returns), lease-ends-before-next-renewal (ttl written by run() <= renew period), lease-ttl-not-positive, "
            "renew-exceeds-third-of-lease, cluster-section-not-fixed. Everything else (exact expiry, 3 s/600 s/1 s limits, ticker period, "
            "refusals, resign that keeps the lease, follower win) is counters + model diff. distinct_nontrivial = distinct event lists with >=2 "
            "instances and >=4 events (+ distinct kept lease/renew pairs, + host pairs that both campaigned)",
    "trusted": [
        "Redis semantics transcribed in Model/Lease.lean: GET / SET..EX / EXPIRE / DEL on a string key with expiry (live while now <= expiry, "
        "EX seconds = 1000 ms, SET EX 0 is an error, EXPIRE 0 deletes), Lua == / truthiness / scoping for the subset, Lua->RESP reply "
        "conversion, atomicity of one EVAL; non-negative decimal ttl only",
        "Lua-subset parser of the extractor (harness/extract/c15.go) - cross-checked each run against an independently written "
        "parser+interpreter in the lease-store double on the script text the real code sends",
        "etcd semantics transcribed TWICE by hand, in Model/EtcdLease.lean and in the etcd double (harness/overlay/pkg/cluster/vf_c15etcd_store_test.go), "
        "and compared with each other only through the election code (no etcd binary to cross-check): a transaction is validated as a whole (empty key: "
        "refused; put on the executed branch with an unknown lease: refused) and applied atomically, reads inside it see its earlier writes, one new "
        "revision per writing request = create revision of the keys it creates, WithFirstCreate = prefix range / least create revision / limit 1, a key "
        "attached to a lease vanishes when the lease expires (now > deadline) or is revoked, a keep-alive sets the deadline to now + TTL, the server "
        "grants a lease id once. Not modelled: the revision consumed by a lease expiry (the election code compares create revisions for equality and "
        "takes the minimum), mod revisions, watches, compaction, an EMPTY election prefix (the client turns it into the whole key space; never generated)",
        "the etcd client library's lessor (keep-alive every TTL/3, re-connect) is NOT run: keep-alives are harness events with any schedule; "
        "concurrency.NewSession / Session.Close and the clientv3 KV / Txn request builders are the real ones",
        "cluster mode of the lease-store double: -MOVED for a key of a slot the node does not own (nothing executed), CLUSTER SLOTS, COMMAND GETKEYS; "
        "a slot move takes its keys along. Not transcribed: ASK / migrating-importing states, replicas, fail-over",
        "lease-store double (RESP server, logical clock, fault injection) in harness/overlay/pkg/cluster/vf_hook_c15_store.go; host part of a peer address: only the spellings '' / 0.0.0.0 / :: of the unspecified address are modelled (Model/Lease.lean unspecHost)",
    ],
    "assumptions": [
        "script atomicity and ONE authoritative clock at the lease store (no claim about wall-clock skew between an instance and the store: "
        "'holder' is defined on the store's clock from the instant the script ran)",
        "the lease store IS the source Redis (client.NewRedis(Input.Redis)), or the etcd cluster of cluster.metaEtcd: a fail-over of the source that "
        "loses the key (asynchronous replication) or a slot re-assigned WITHOUT its keys loses or forks the lease. Exercised: standalone connection and "
        "a cluster-type input whose slots move WITH their keys (-MOVED, re-issue on the node named); not exercised: ASK during a migration, fail-over",
        "ELECTION KEY = <ns>/<group>/input-election/<A>/ where A is the source shard's master ADDRESS STRING as THIS instance knows it (cmd/syncer.go "
        "runCluster: cfg.Input.GetClusterShard(cfg.Input.Address()).Master.Address - for a standalone input the string written under "
        "input.redis.addresses, for a cluster input the address CLUSTER NODES reports to this instance). The property is per LEASE (= per key): "
        "instances that name one source by different strings contend through different leases and are outside its quantifier, exactly as two hosts "
        "both configured localhost:18001 are one contender. Two ways this happens: instances with different views of a shard's master during a source "
        "fail-over (unreachable for the harness); two hosts whose configurations spell one source differently (127.0.0.1:p / localhost:p) - observed on "
        "every run by the contendsrc ops (both are told leader, on two keys; counter contendsrc_observed_two_leaders_on_two_keys_spellings_differ, "
        "corpus/C15/d_source_spelling.txt): an operator error no local check can see (deployment rule: the same input section on every host of a "
        "group), not reported",
        "etcd: every etcd theorem is about the election key in the STORE ('holder' = told leader and its key still there at the create revision it "
        "knows); 'stops renewing' = no keep-alive of the session's lease reaches the store - keep-alives are sent by the etcd client library's lessor "
        "(not run by any harness), never by the election code; the server grants a lease id once",
        "etcd lease ttl = int(LeaseTimeout/second) (config fix, source fact etcd_ttl_assign) handed to concurrency.WithTTL (fact etcd_session_args): "
        "NewEtcdCluster itself (clientv3.New + availability probe) cannot run without a server and is tied by these two facts only",
        "instance ids are the configured peer STRINGS (server.listenPeer, else server.listen); equal strings = one contender. Since fix "
        "6c9227b a cluster-mode configuration without a configured address or with an unspecified host is refused (before, every "
        "default-configured host contended as 127.0.0.1:18001 and each was told leader). Host names and loopback are taken as written: two "
        "hosts both configured `localhost:18001` (or the same literal address) still share one identity - an operator error no local "
        "configuration check can see (docs: 'do not use 127.0.0.1'); the theorems REDUCE 'ids distinct' to 'configured strings distinct' "
        "(distinct_addresses_distinct_ids), they do not discharge it",
        "an instance stops acting as leader before it calls Resign (runCluster: sy.Stop(); syncerWait.WgWait(); elect.Resign - call order + "
        "control-flow skeleton compared as source facts; that Stop() really ends every output goroutine is syncer code outside C15's "
        "harnesses); after an error from Campaign/Renew its belief is unchanged until the next answer or until its lease runs out",
        "cmd/syncer.go: run(), runCluster up to its first campaign, clusterTicker/clusterRenew/clusterCampaign are executed for real; the rest "
        "of runCluster is tied by source facts only; a Resign that is skipped or late only delays takeover by <= ttl (takeover_possible)",
        "acting interval (RunLeader running): at_most_one_acting / acting_intervals_disjoint hold for EVERY schedule of sends, script "
        "executions, answers of any lateness or none, abandoned calls, stray executions, stops, crashes and resigns, under ONE schedule "
        "condition (TAllowed): real time does not pass beyond okSent + hold while an instance leads, hold <= ttl. The code meets it since fix "
        "8b531f9 (lease timer in clusterTicker beside the election call; model theorem ticker_leads_within_hold for calls of any duration, "
        "tied by the real clusterTicker under virtual time incl. calls that never return - before the fix the ticker blocked in the call and "
        "the instance kept leading: counter-witness blockedEvs, corpus d_renew_never_returns). hold = leaseHold (store ttl - renew period, on "
        "the INSTANCE's clock) + drift D of that clock against the store's over one lease + time S from clusterTicker's return until "
        "sy.Stop()/WgWait have ended the syncer: assumed D + S <= renew period (>= 1 s) (at_most_one_acting_with_drift); neither D nor S is "
        "measured. Nothing bounds an election call itself (redisElection ignores its context, client.Do has no deadline: stat "
        "renew_ignores_ctx_deadline every run): a stuck call leaves its goroutine and the client blocked; Resign after such a stall blocks "
        "runCluster (the instance no longer leads; liveness only)",
        "one client connection is shared by all elections of an instance and its registry keep-alive; RedisConn.Do holds its mutex over "
        "send+receive and has no read deadline, so replies cannot be mis-attributed (shared ops exercise concurrent use with a stalled "
        "reply). A client that abandons a reply without closing the connection (read deadline added naively) is not covered: the double "
        "stalls on a logical clock, no client-side timeout exists to trip",
        "the registry keys of redisCluster.Register live under a different prefix and are not modelled",
        "ttl >= 1 s (theorem hypothesis; lease_bounds proves ttl >= 3 for every output of ClusterConfig.fix; cfgfix/leasettl ops tie it)",
    ],
    "partial": [
        "near-definitional theorems, kept as named corollaries, not counted as content: at_most_one_holder_always (instance of "
        "at_most_one_holder), lost_resign_only_own, holder_until_deadline and the first conjunct of expiry_bound (told is frozen while the "
        "instance does not call), election_id_configured / distinct_addresses_distinct_ids (the 3-line definition electionId read backwards; "
        "their content is the tie of electionId to the real configuration code through run())",
        "ticker: two hand-written models of clusterTicker, both executed against the REAL function under virtual time: tickerRun (calls answer at once "
        "or never; theorems ticker_*) and tickerRunD (every answer has a duration, Go ticker keeps one tick / drops the rest, outside close, closed at "
        "entry; theorems tickd_*); the driver checks that they agree on every duration-free scenario, no general equivalence proof. Regenerated from "
        "cmd/syncer.go: the retry count and the base of the re-arm expression (Gen/TickerParams.lean) - the loop structure itself (select / goroutine / "
        "close on error) is hand-transcribed and pinned by the skeleton fingerprint + the branch counters tickd_branch_* (all non-zero). Scenarios in "
        "which two instants coincide (a Go select with two ready cases) and slow FAILING answers are excluded by construction",
        "corollaries / pins kept by name, not counted as content: etcd_at_most_one_holder_always (etcd_at_most_one_holder on evs.take n), "
        "acting_intervals_disjoint (at_most_one_acting on evs.take n), at_most_one_acting_with_drift (at_most_one_acting with hold := H+D+S; D, S not "
        "measured), ticker_retry_is_two (rfl on a generated constant); TAllowed (hypothesis of the acting theorems) is linked to tickd_* in prose only - "
        "no theorem from tickerRunD to trunOk",
        "etcd: success / refusal theorems are for fault-free calls of a live session on a non-empty prefix; expiry_bound / takeover need '/'-terminated "
        "prefixes (as runCluster builds them: two prefixes whose keys could collide are correspondence-only); the key space starts empty (foreign junk "
        "under a prefix is not covered; the Redis model takes any initial store)",
        "OBSERVATION about the etcd path, outside C15 (whose text is about the Redis-based lease): NO acting bound with cluster.metaEtcd. Nothing reads "
        "Session.Done(); Renew is only a Get and extends nothing; the lease timer of 8b531f9 is re-armed by every successful Renew, so it measures "
        "'last successful READ + hold', unrelated to the key's remaining life; acting_has_lease / at_most_one_acting are Redis-only and do not carry "
        "over. Witness (Props/C15Etcd.lean etcdActingWitness, checked by decide): grant 1 3, campaign 1, tick 3000, renew 1 -> nil (at the deadline "
        "instant), tick 1, grant 2 3, campaign 2 -> leader while 1 is still told leader (at the store: one holder, 2); instance 1 goes on running "
        "RunLeader until its next Renew (<= one renew period, if its Gets are answered) or until the timer (last Renew + hold). A repair would watch "
        "Session.Done() / arm the timer from keep-alive responses; not attempted (outside the property)",
        "cluster-type lease store: exercised (correspondence + monitors), no separate model - the single-store model is the specification; -ASK is not generated",
    ],
}

MANIFEST = {
    "text": "Lean theorems over the two election Lua scripts as re-extracted from pkg/cluster/redis_election.go on every run (parsed into a "
            "small AST; evalLua over a key/value/expiry store with a logical clock): for EVERY list of campaign/renew/resign/leader/tick/"
            "lost-call events by any number of instances on any number of keys, from any initial store, at most one instance per key was "
            "told 'leader' with its lease unexpired (invariant + induction over the event list); success only for the holder or a free key; "
            "failed renewal = ErrNotLeader and loss of holder status; resign deletes only one's own lease; an instance that stops calling "
            "is holder exactly until ttl has passed, then any other contender can take over; a leader whose renewal fails closes its syncer at "
            "that tick (clusterTicker model, executed for real under virtual time); in cluster mode the election id is an address written in the "
            "configuration (default-identity defect found and fixed: 6c9227b); ClusterConfig.fix yields 3s<=lease<=600s, 1s<=renew<=lease/3, ttl in [3,600]. The Go glue "
            "(Campaign/Renew/Resign/Leader through the real RESP client) and fix are tied by differential correspondence against a "
            "lease-store double (standalone and cluster-type: MOVED / re-issue); independent monitors check the property on the real code's answers. "
            "Etcd election (cluster.metaEtcd): the requests of etcd_election.go regenerated into an AST (Gen/EtcdElection.lean), evalTxn over a key space "
            "with create revisions and leases; for EVERY list of grant/keep-alive/revoke/campaign/renew/resign/tick events with lost requests and a "
            "Campaign cut between its transaction and its Delete: at most one session per prefix was told leader with its key still in the store, a "
            "holder's key is the first-created one, success only when no foreign key is older, failed renewal = ErrNotLeader/ErrNoLeader, resign removes "
            "only the own key at the remembered revision, a session without keep-alive holds nothing once its deadline has passed; the real election code "
            "+ real clientv3 request builders + real concurrency.Session run against an in-process etcd double. clusterTicker with calls of ANY duration "
            "(tickerRunD, parameters regenerated): it returns within hold of the SEND of the last successful call.",
    "note": "trusted: Lean kernel (propext, Classical.choice, Quot.sound only), Redis/Lua semantics of the subset as transcribed, script "
            "atomicity + single store clock, extractor's Lua parser (cross-checked against the double's interpreter), lease-store double; "
            "etcd semantics (transcribed in model and double, no etcd binary), etcd client lessor not run; "
            "cmd/syncer.go loop after the first campaign tied only by source facts; with metaEtcd no acting bound (observation in partial)",
    "technique": "Lean 4 proof (symbolic evaluation of the regenerated script ASTs to closed-form specs, invariant + induction over event "
                 "lists, omega for durations) + differential correspondence over loopback RESP + independent monitors",
}
