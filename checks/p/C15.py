EVAL_ARGS = ['"eval"', "lua", '[]byte("1")', "e.key", "e.id", "e.ttl"]

PROP = {
    "lean_modules": ["GunYu.Props.C15"],
    "audit_namespaces": ["GunYu.Props.C15"],
    "required_theorems": [
        "GunYu.Props.C15.at_most_one_holder",
        "GunYu.Props.C15.at_most_one_holder_always",
        "GunYu.Props.C15.holder_is_in_store",
        "GunYu.Props.C15.success_only_holder_or_free",
        "GunYu.Props.C15.refused_when_foreign",
        "GunYu.Props.C15.failed_renew_reports_loss",
        "GunYu.Props.C15.resign_only_own",
        "GunYu.Props.C15.lost_resign_only_own",
        "GunYu.Props.C15.expiry_bound",
        "GunYu.Props.C15.expiry_bound_campaign",
        "GunYu.Props.C15.renew_le_third",
        "GunYu.Props.C15.lease_bounds",
        "GunYu.Props.C15.two_renewals_within_ttl",
    ],
    # how the scripts are invoked and how cmd/syncer.go uses the election
    # (cmd/ is not run in-process; a change here must be re-read against the model)
    "expected_facts": {
        "lease_eval_args_campaign": EVAL_ARGS,
        "lease_eval_args_resign": EVAL_ARGS,
        "lease_body_renew": "{ role, err := e.Campaign(ctx) if err != nil { return err } if role != RoleLeader { return ErrNotLeader } return nil }",
        "lease_body_leader": "{ res, err := common.String(e.cli.Do(\"GET\", e.key)) return &RoleInfo{ Address: res, Role: RoleLeader, }, err }",
        "lease_ttl_expr": "int(config.GetSyncerConfig().Cluster.LeaseTimeout / time.Second)",
        "lease_ticker_period": "config.GetSyncerConfig().Cluster.LeaseRenewInterval",
        "lease_ticker_calls": ["IsClosed", "NewTicker", "GetSyncerConfig", "Stop", "Done", "Context", "Retry",
                               "clusterRenew", "Context", "Errorf", "clusterCampaign", "Context", "Errorf", "Infof",
                               "String", "Inc", "Close", "Join", "Close"],
        "lease_runcluster_order": ["sc.clusterCampaign", "sy.RunLeader", "elect.Leader", "sy.RunFollower",
                                   "sc.clusterTicker", "sy.Stop", "syncerWait.WgWait", "elect.Resign"],
    },
    "harness": [
        {"name": "C15", "pkg": "./pkg/cluster/", "test": "TestVerifC15", "timeout_quick": "10m", "timeout_thorough": "40m"},
        {"name": "C15fix", "pkg": "./config/", "test": "TestVerifC15Fix"},
    ],
    "driver": "drv_C15",
    "rule": "event lists: corpus; ALL lists of length<=4 (quick) / <=5 (thorough) over {campaign a, campaign b, renew a, resign a, resign b, "
            "tick ttl/2, tick ttl+1ms, lost-but-applied campaign b}; generated lists of 1-40 events with 1-4 instances (own TCP connection "
            "each, ids incl. empty / 'false' / non-UTF-8), 1-2 election keys, ttl 1..600 s (ttl=0 corner for correspondence only), arbitrary "
            "initial store contents (foreign, own-from-earlier-incarnation, expired), ticks aimed at lease expiry -1/0/+1 ms, lost campaigns "
            "and resigns (error reply or dropped connection, script executed or not); request-level interleavings: p:<call>:<key>:<id>:<k> starts a "
            "call whose (k+1)-th Redis request is held by the store while other instances act and the clock moves, g:<id> releases it (ALL windows "
            "of length<=2 quick / <=3 thorough over {tick ttl/2, tick ttl+1, campaign b, renew b, resign b} x call kind x k in {1,2} x 5 prefixes x 3 "
            "suffixes, plus random ones; for one-request calls p = the plain call). Every event: result of the REAL "
            "redisElection.Campaign/Renew/Resign/Leader via NewRedisCluster + the real RESP client over loopback, live store contents and "
            "holder set, compared line by line with the Lean model (scripts = regenerated AST). lua ops: the double's Lua interpreter on the "
            "script text received at run time vs Lean evalLua on the regenerated AST, random stores/KEYS/ARGV incl. malformed ttl. "
            "fix ops: real (*ClusterConfig).fix on a 32x32 grid of boundary durations + generated int64 durations vs Lean fixCfg. "
            "Monitors on the real code (independent of Lean): two-holders, success-over-foreign-lease, success-without-full-lease, "
            "failed-renew-not-reported, foreign-lease-changed, resign-released-foreign-lease, resign-keeps-own-lease, lost-call-not-an-error, "
            "lease/renew/ttl-out-of-bounds. distinct_nontrivial = distinct event lists with >=2 instances and >=4 events (+ distinct kept "
            "lease/renew pairs)",
    "trusted": [
        "Redis semantics transcribed in Model/Lease.lean: GET / SET..EX / EXPIRE / DEL on a string key with expiry (live while now <= expiry, "
        "EX seconds = 1000 ms, SET EX 0 is an error, EXPIRE 0 deletes), Lua == / truthiness / scoping for the subset, Lua->RESP reply "
        "conversion, atomicity of one EVAL; non-negative decimal ttl only",
        "Lua-subset parser of the extractor (harness/extract/c15.go) - cross-checked each run against an independently written "
        "parser+interpreter in the lease-store double on the script text the real code sends",
        "lease-store double (RESP server, logical clock, fault injection) in harness/overlay/pkg/cluster/vf_c15_store_test.go",
    ],
    "assumptions": [
        "script atomicity and ONE authoritative clock at the lease store (no claim about wall-clock skew between an instance and the store: "
        "'holder' is defined on the store's clock from the instant the script ran)",
        "instance ids (server.listenPeer) are distinct; instances sharing an id are one contender for the store",
        "an instance stops acting as leader before it calls Resign (runCluster: sy.Stop(); syncerWait.WgWait(); elect.Resign - statement "
        "order compared as source fact lease_runcluster_order); after an error from Campaign/Renew its belief is unchanged until the next "
        "answer or until its lease (counted from its last success) runs out",
        "cmd/syncer.go (clusterTicker, runCluster) is not executed by the harness: ttl expression, ticker period and call skeleton are "
        "compared as source facts; Go glue of pkg/cluster is tied by correspondence, the two Lua scripts are regenerated",
        "the registry keys of redisCluster.Register live under a different prefix and are not modelled",
        "ttl >= 1 s (theorem hypothesis; lease_bounds proves ttl >= 3 for every output of ClusterConfig.fix)",
    ],
    "partial": [],
}

MANIFEST = {
    "text": "Lean theorems over the two election Lua scripts as re-extracted from pkg/cluster/redis_election.go on every run (parsed into a "
            "small AST; evalLua over a key/value/expiry store with a logical clock): for EVERY list of campaign/renew/resign/leader/tick/"
            "lost-call events by any number of instances on any number of keys, from any initial store, at most one instance per key was "
            "told 'leader' with its lease unexpired (invariant + induction over the event list); success only for the holder or a free key; "
            "failed renewal = ErrNotLeader and loss of holder status; resign deletes only one's own lease; an instance that stops calling "
            "is no holder once ttl has passed; ClusterConfig.fix yields 3s<=lease<=600s, 1s<=renew<=lease/3, ttl in [3,600]. The Go glue "
            "(Campaign/Renew/Resign/Leader through the real RESP client) and fix are tied by differential correspondence against a "
            "lease-store double; independent monitors check the property on the real code's answers.",
    "note": "trusted: Lean kernel (propext, Classical.choice, Quot.sound only), Redis/Lua semantics of the subset as transcribed, script "
            "atomicity + single store clock, extractor's Lua parser (cross-checked against the double's interpreter), lease-store double; "
            "cmd/syncer.go loop tied only by source facts",
    "technique": "Lean 4 proof (symbolic evaluation of the regenerated script ASTs to closed-form specs, invariant + induction over event "
                 "lists, omega for durations) + differential correspondence over loopback RESP + independent monitors",
}
