# the etcd double imports go.etcd.io/etcd/api/v3 (indirect in /repo/go.mod). ./check runs every `go test` on a private
# copy of go.mod (-modfile), so /repo/go.mod is never rewritten; the double's files additionally carry the build tag
# verifc15etcd (the later -tags flag replaces the runner's `-tags verif`) so that no OTHER build of ./pkg/cluster under
# the overlay - a hand-run `go test` without -modfile - compiles them.
PROP = {
    "lean_modules": ["GunYu.Props.C15", "GunYu.Props.C15Etcd", "GunYu.Props.C15Ticker", "GunYu.Props.C15TickerEq",
                     "GunYu.Props.C15Arith", "GunYu.Props.C15Cluster", "GunYu.Props.C15ClusterRun", "GunYu.Props.C15EtcdJunk", "GunYu.Props.C15TickerDl", "GunYu.Props.C15Sim", "GunYu.Props.C15Loop"],
    "gens": ["c15etcd", "c15ticker", "c15arith", "c15globals"],
    "audit_namespaces": ["GunYu.Props.C15"],
    "required_theorems": [
        "GunYu.Props.C15.at_most_one_holder",
        "GunYu.Props.C15.at_most_one_holder_always",
        "GunYu.Props.C15.holder_is_in_store",
        "GunYu.Props.C15.success_only_holder_or_free",
        "GunYu.Props.C15.refused_when_foreign",
        "GunYu.Props.C15.failed_renew_reports_loss",
        "GunYu.Props.C15.resign_only_own",
        "GunYu.Props.C15.lost_resign_only_own",
        "GunYu.Props.C15.expiry_bound",
        "GunYu.Props.C15.expiry_bound_campaign",
        "GunYu.Props.C15.holder_until_deadline",
        "GunYu.Props.C15.takeover_possible",
        "GunYu.Props.C15.at_most_one_acting",
        "GunYu.Props.C15.acting_intervals_disjoint",
        "GunYu.Props.C15.acting_has_lease",
        "GunYu.Props.C15.at_most_one_acting_with_drift",
        "GunYu.Props.C15.ticker_returns_by_deadline",
        "GunYu.Props.C15.ticker_leads_within_hold",
        "GunYu.Props.C15.ticker_failed_renewal_stops_leader",
        "GunYu.Props.C15.ticker_stops_before_lease_deadline",
        "GunYu.Props.C15.ticker_blocked_renewal_stops_leader",
        "GunYu.Props.C15.election_id_configured",
        "GunYu.Props.C15.distinct_addresses_distinct_ids",
        "GunYu.Props.C15.renew_le_third",
        "GunYu.Props.C15.lease_bounds",
        "GunYu.Props.C15.two_renewals_within_ttl",
        # etcd election (cluster.metaEtcd)
        "GunYu.Props.C15.etcd_at_most_one_holder",
        "GunYu.Props.C15.etcd_at_most_one_holder_always",
        "GunYu.Props.C15.etcd_holder_is_first_created",
        "GunYu.Props.C15.etcd_success_only_first_or_free",
        "GunYu.Props.C15.etcd_refused_when_foreign",
        "GunYu.Props.C15.etcd_failed_renew_reports_loss",
        "GunYu.Props.C15.etcd_resign_only_own",
        "GunYu.Props.C15.etcd_expiry_bound",
        "GunYu.Props.C15.etcd_takeover_possible",
        # clusterTicker with election calls of any duration
        "GunYu.Props.C15.tickd_leader_within_hold",
        "GunYu.Props.C15.tickd_leads_within_hold",
        "GunYu.Props.C15.ticker_retry_is_two",
        # session 5: the two ticker models are one (general equivalence, replaces the driver's per-scenario comparison)
        "GunYu.Props.C15.tickerRunD_eq_tickerRun",
        "GunYu.Props.C15.tickd_failed_renewal_stops_leader",
        "GunYu.Props.C15.tickd_blocked_renewal_stops_leader",
        "GunYu.Props.C15.tickd_deadline_is_send_plus_hold",
        # session 5: TAllowed derived: system schedule <-> local traces of the instances; a ticker term is locally allowed
        "GunYu.Props.C15.view_tstep",
        "GunYu.Props.C15.trunOk_iff_local",
        "GunYu.Props.C15.lrunOk_idle",
        "GunYu.Props.C15.ticker_term_localOk",
        "GunYu.Props.C15.ticker_localOk",
        "GunYu.Props.C15.leaderTrace_returns_with_loop",
        "GunYu.Props.C15.at_most_one_acting_of_local",
        # session 5: runCluster's loop after the first campaign: the theorems of C16's hand-over model, imported
        "GunYu.Props.C15.loop_resign_only_after_stop",
        "GunYu.Props.C15.loop_silent_until_campaign_won",
        "GunYu.Props.C15.loop_campaign_outcome",
        "GunYu.Props.C15.loop_no_two_senders",
        # session 5: duration arithmetic regenerated from config.go / cmd/syncer.go (Gen/LeaseArith.lean)
        "GunYu.Props.C15.gen_fixDur_eq_model",
        "GunYu.Props.C15.gen_fix_range",
        "GunYu.Props.C15.gen_storeTtl_eq_model",
        "GunYu.Props.C15.gen_etcdTtl_eq_storeTtl",
        "GunYu.Props.C15.gen_hold_plus_renew",
        "GunYu.Props.C15.gen_leaseHold_eq_model",
        "GunYu.Props.C15.cfg_hold_renew_ttl",
        "GunYu.Props.C15.at_most_one_acting_from_config",
        "GunYu.Props.C15.at_most_one_acting_one_second",
        # session 5: cluster-type lease store (MOVED re-issue, ASK / ASKING) refines the single store, one request
        "GunYu.Props.C15.exec_other",
        "GunYu.Props.C15.exec_congr",
        "GunYu.Props.C15.execAt_refines",
        "GunYu.Props.C15.clientDo_refines",
        "GunYu.Props.C15.cluster_request_refines_partial",
        "GunYu.Props.C15.absStore_tick",
        "GunYu.Props.C15.begin_ok",
        "GunYu.Props.C15.migrateKey_ok",
        "GunYu.Props.C15.finish_ok",
        "GunYu.Props.C15.move_ok",
        "GunYu.Props.C15.cstep_refines",
        "GunYu.Props.C15.cluster_run_refines",
        # session 5: etcd election from ANY well-formed key space (foreign junk under the prefix)
        "GunYu.Props.C15.etcd_inv_initWith",
        "GunYu.Props.C15.etcd_at_most_one_holder_any_keyspace",
    ],
    # Only the part of cmd/syncer.go that NO harness executes is pinned by source facts: runCluster after its first
    # campaign (syncer start/stop around the ticker, resign): the order of the calls that matter and the control-flow
    # skeleton (log/metric statements removed, string literals blanked, sha256/64 - a changed message or comment does
    # not alarm). Everything else (scripts, Campaign/Renew/Resign/Leader glue, run(), runCluster up to the first
    # campaign, clusterTicker/clusterRenew/clusterCampaign, config fix) is executed and needs no fact.
    "expected_facts": {
        "lease_skel_runCluster": "cb26da7fa3825564",
        "lease_runcluster_order": ["sc.clusterCampaign", "sy.RunLeader", "elect.Leader", "sy.RunFollower",
                                   "sc.clusterTicker", "sy.Stop", "syncerWait.WgWait", "elect.Resign"],
        # loop shape of the ticker (executed under virtual time as well): what the ticker theorems are about
        "lease_skel_clusterTicker": "b413045d51e23d82",
        "lease_ticker_retry": "2",
        # dimension audit: package-level vars of pkg/cluster written after init (none: ErrNoLeader / ErrNotLeader are only read);
        # the election objects hold no shared mutable state besides the client connection (shared ops)
        "lease_pkg_globals_written": [],
        "lease_timer_arm": "time.Until(leaseFrom.Add(sc.leaseHold()))",
        "lease_timer_rearm": "time.Until(sentAt.Add(sc.leaseHold()))",
        # (lease_hold_expr, etcd_ttl_assign: replaced by the regenerated definitions leaseHold / etcdTtl of Gen/LeaseArith.lean
        #  and the theorems gen_hold_plus_renew / gen_etcdTtl_eq_storeTtl - an equivalent rewrite of either no longer alarms)
        # etcd: the part of etcd_cluster.go / config.go that cannot run without a server (NewEtcdCluster): how the
        # session is made and where its TTL comes from. The requests themselves are regenerated (Gen/EtcdElection.lean).
        "etcd_key_expr": 'fmt.Sprintf("%s%x", e.keyPrefix, e.sess.Lease())',
        "etcd_try_args": ["ctx", "e.id"],
        "etcd_session_args": ["cli", "concurrency.WithTTL(cfg.Ttl)"],
        "etcd_newelection_fields": ["cli: c.cli", "keyPrefix: electionPath", "sess: c.sess", "id: id"],
    },
    "harness": [
        {"name": "C15", "pkg": "./pkg/cluster/", "test": "TestVerifC15", "timeout_quick": "10m", "timeout_thorough": "40m"},
        {"name": "C15etcd", "pkg": "./pkg/cluster/", "test": "TestVerifC15Etcd", "timeout_quick": "10m", "timeout_thorough": "30m",
         "go_flags": ["-tags", "verif,verifc15etcd"]},
        {"name": "C15fix", "pkg": "./config/", "test": "TestVerifC15Fix"},
        {"name": "C15cmd", "pkg": "./cmd/", "test": "TestVerifC15Cmd", "timeout_quick": "4m", "timeout_thorough": "10m"},
        {"name": "C15tick", "pkg": "./cmd/", "test": "TestVerifC15Tick", "timeout_quick": "10m", "timeout_thorough": "30m"},
        {"name": "C15loop", "pkg": "./cmd/", "test": "TestVerifC15Loop", "timeout_quick": "10m", "timeout_thorough": "10m"},
    ],
    "driver": "drv_C15",
    "rule": "event lists: corpus; ALL lists of length<=4 (quick) / <=5 (thorough) over {campaign a, campaign b, renew a, resign a, resign b, "
            "tick ttl/2, tick ttl+1ms, lost-but-applied campaign b}; generated lists of 1-40 events with 1-4 instances (own TCP connection "
            "each, ids incl. empty / 'false' / non-UTF-8), 1-2 election keys, ttl 1..600 s (ttl=0 corner for correspondence only), arbitrary "
            "initial store contents (foreign, own-from-earlier-incarnation, expired), ticks aimed at lease expiry -1/0/+1 ms, lost campaigns "
            "and resigns (error reply or dropped connection, script executed or not); request-level interleavings: p:<call>:<key>:<id>:<k> starts a "
            "call whose (k+1)-th Redis request is held by the store while other instances act and the clock moves, g:<id> releases it (ALL windows "
            "of length<=2 quick / <=3 thorough over {tick ttl/2, tick ttl+1, campaign b, renew b, resign b} x call kind x k in {1,2} x 5 prefixes x 3 "
            "suffixes, plus random ones; for one-request calls p = the plain call). Every event: result of the REAL "
            "redisElection.Campaign/Renew/Resign/Leader via NewRedisCluster + the real RESP client over loopback, live store contents and "
            "holder set, compared line by line with the Lean model (scripts = regenerated AST). lua ops: the double's Lua interpreter on the "
            "script text received at run time vs Lean evalLua on the regenerated AST, random stores/KEYS/ARGV incl. malformed ttl. "
            "fix ops: real (*ClusterConfig).fix on a 32x32 grid of boundary durations + generated int64 durations vs Lean fixCfg; cfgfix ops: whole "
            "yaml configurations through InitSyncerConfig (cluster section with/without groupName, metaEtcd, lease/renew on a 13x13 grid, fields "
            "omitted) - a surviving cluster section must be usable (ttl >= 1, 0 < renew <= lease/3, renew < ttl). C15cmd: ident ops: every server "
            "section (listen unset / host IP / 0.0.0.0 / loopback / ':port' / localhost x listenPeer unset / IP / 0.0.0.0 / host name / [::]) "
            "with and without cluster section through the real InitSyncerConfig, real fixConfig and the REAL (*SyncerCmd).run() (builds the "
            "lease-store client with its own ttl, registers, runCluster derives key and election id and campaigns through the real redis "
            "election; the double holds the reply of that first EVAL while the harness reads the store and closes the run); contend ops: pairs "
            "of two hosts' server sections (quick: 12x12 sub-matrix, thorough: 30x30) run that way at one instant on the store's clock; "
            "leasettl ops: 12x8 grid of leaseTimeout x leaseRenewInterval (incl. unset), ttl as written to the store by the real run() and the "
            "renew period vs Lean ttlSeconds/fixCfg; ticker ops: the REAL (*SyncerCmd).clusterTicker (+ real clusterRenew/clusterCampaign/leaseHold) "
            "under testing/synctest with a scripted Election whose answers are ok / ErrNotLeader / error / A CALL THAT NEVER RETURNS, ALL "
            "scripts of length<=4 (quick) / <=5 (thorough) for both roles (R 1.5 s, lease 5 s, campaign sent 200 ms before), each leader "
            "script of length<=2 also followed by 10 failures, + random scripts, periods 1-200 s, leases >= 3 periods: calls with their "
            "virtual instants, when/how the syncer's wait is closed and when clusterTicker RETURNS vs Lean tickerRun (exact periods / same-instant reaction are compared THERE only); shared "
            "ops: one client shared by two elections used concurrently while a reply is stalled. DIMENSIONS DRAWN BY FORCE (session-5 audit; ALL lists of length<=3 over "
            "{campaign a, campaign b, renew a, resign a, resign b, tick ttl/2, tick ttl+1, leader} each, counters trace_dim_*): the key held by a STRANGER "
            "WITHOUT EXPIRY (PERSISTed / hand-written: nobody ever wins - liveness, no second leader), the key holding a's OWN value without expiry (a's "
            "campaign wins and EXPIRE gives it a ttl), ids 'a' / 'ab' with the key holding the shorter resp. the longer one (Lua == is exact), ids '' / 'a', "
            "calls made with an ALREADY CANCELLED context in every position (`can:<c|r|x>:..:<d|n>`: answered as usual = d, or refused with nothing sent = n "
            "in the model; today all d: the election ignores its context); cluster store: Leader() = COMMAND GETKEYS + GET with the slot MOVED (`lm`) or "
            "starting to MIGRATE with the key gone over (`la`) BETWEEN the two requests (in the cluster exhaustive alphabet; counters "
            "cluster_resharding_in_mid_call_*); election object used after Resign, Renew before any Campaign: in the exhaustive lists since session 1; "
            "two hosts with EQUAL peer strings through the real run(): observation counter contend_equal_ids_both_told_leader_observed; fix(): every clamp "
            "boundary by force (0, <1 s, 1 s, 3 s, 3.5 s, 600 s, 600 s + 1 ns, 601 s, renew = lease/3 +- 1, negatives, MinInt64 / MaxInt64), counters "
            "cfg_leaseTimeout_* / cfg_leaseRenewInterval_* / cfg_redisType_*. LATE ANSWERS (round-8 seeded mutation): event "
            "`late:<c|r|x>:<key>:<id>:<d|t>` - the store holds the call's request, the caller's context ENDS (cancelled by the harness = its deadline "
            "passing: cmd/syncer.go gives every election call a context with a deadline; no clock involved), then the store executes and answers; the call "
            "either waited for the late answer (d: an ordinary call in the model) or gave up (t: lost-but-applied in the model) - observed, written into "
            "the op and the replay; the SAME election object is then used on: a leads, one late call, then ALL lists of length<=3 quick / <=4 thorough over "
            "{resign a, campaign b, campaign a, renew a, tick ttl+1, renew b} (3 x 258 quick) + corpus; every later call must get the store's answer to "
            "THAT call (model = each event answered by the store at that event; monitors success-without-lease / two-holders / failed-renew-not-reported "
            "/ success-over-foreign-lease catch a stale answer kept from the abandoned call). "
            "CLUSTER-type lease store (C15): the same event lists (corpus `ctrace`; ALL lists of length<=3 quick / <=4 thorough over {campaign a, campaign b, "
            "renew a, resign a, tick ttl/2, tick ttl+1, lost-but-applied campaign b, slot of the key -> node 0, -> node 1, leader}; generated lists with slot "
            "moves mixed in) through NewRedisCluster with a cluster-type configuration = the REAL cluster client (EVAL routed by the key's slot, GET located "
            "with COMMAND GETKEYS, -MOVED handled by re-issuing on the node named, CLUSTER SLOTS refresh) against a 3-node double sharing the lease key space "
            "(`mv:<key>:<node>` re-assigns the slot, its keys move with it; `mg:<key>:<node>` starts MIGRATING the key's slot to a node = IMPORTING there: the "
            "owner answers -ASK for a key it no longer has, the importing node serves only after ASKING, else -MOVED; `mk:<key>` MIGRATEs the key; both in the "
            "exhaustive alphabet and the generated lists: the REAL handleAsk = ASKING + request on the node named); same model, same monitors (counters "
            "cluster_requests_moved_and_reissued, cluster_requests_asked = cluster_requests_served_after_asking, cluster_trace_with_redirect / _with_ask, "
            "ev_migrate_begin, ev_migrate_key). Lean side: Model/LeaseCluster.lean (nodes, slot table, migration state, the client's redirections) with "
            "cluster_run_refines: every run equals the single-store run. ETCD election (C15etcd): the REAL etcdElection.Campaign/Renew/Resign/Leader + the real clientv3 KV/Txn code + the "
            "real concurrency.Session on an in-process etcd double that receives the protobuf requests (no etcd binary): event lists of session grants "
            "(lease ids incl. 2^63-1 and ids whose hex collides across prefixes - correspondence only), keep-alives that arrive or not, Session.Close, ticks "
            "aimed at lease deadlines -1/0/+1 ms, Campaign/Renew/Resign with the request lost before or after it was applied (Campaign: its Txn or its "
            "Delete), a Campaign HELD between its transaction and its Delete while others resign / expire / renew / campaign (ALL windows of length<=2 "
            "quick / <=3 thorough x 3 prefixes x 3 suffixes x Delete ok / lost / applied-lost), ALL lists of length<=3 quick / <=4 thorough over 12 events "
            "of two sessions, generated lists of 2-40 events with 1-4 sessions on 1-3 prefixes, a quarter of them on a key space that already holds 1-2 "
            "foreign lease-less keys under an election prefix or elsewhere (`j:` events, counter etcd_ev_junk_key); every result, the key space with create revisions and "
            "leases, the store revision, the REAL fields e.key / e.rev of every election object and the holders vs Lean Etcd.step (requests = regenerated "
            "AST). Monitors (etcd): etcd-two-holders, etcd-success-over-foreign-key, etcd-success-without-key, etcd-failed-renew-not-reported, "
            "etcd-told-leader-without-answer, etcd-foreign-key-changed, etcd-resign-released-foreign-key, etcd-key-without-lease (an election key not "
            "attached to its session's lease never expires). Tie-level only (a difference is a broken tie, not a violation): the requests each call "
            "issues (erequests op), the private fields e.key / e.rev and the store revision in the etrace lines. TICKER with calls of any duration (C15tick): the REAL clusterTicker "
            "under synctest, answers that take a scripted time (shorter than a tick, spanning one, spanning several = ticks kept / dropped by the Go "
            "ticker, longer than the hold) or never return, the wait closed by somebody else at a given instant or before the start, the campaign's answer "
            "arriving late (little hold left): ALL scripts of length<=3 quick / <=4 thorough over 7 answers for both roles, each short one with 4 outside "
            "closes, + random (periods 1-30 s); calls with send instants, close, return vs Lean tickerRunD (retry count and re-arm base regenerated from the source: the base counts as 'from the send' only if "
            "the re-arm expression is time.Until(x.Add(sc.leaseHold())) with x := time.Now() standing before the statement that starts the call AND x is "
            "assigned nowhere else in the function; re-assigned to time.Now() = 'from the answer' (the theorem then no longer builds); any other shape: "
            "the generator fails); every branch of clusterTicker counted (tickd_branch_*); monitor leads-past-its-lease on answered successes. C15loop (session 5): the REAL run() / runCluster BEYOND the first campaign against the "
            "lease-store double (real scripts, real client), restarted as Run() restarts it: campaign won -> real NewSyncer / RunLeader + real clusterTicker "
            "renewing -> the harness moves the store's LOGICAL clock past the lease and writes another contender's value (atomically, its place among the "
            "EVALs exact) -> renewal refused -> wait closed, sy.Stop, Resign (monitor resign-released-foreign-lease) -> run ends, run again -> campaign "
            "refused (monitor success-over-foreign-lease over the whole foreign term) -> follow / candidate, campaigning -> foreign lease runs out on the "
            "store's clock -> campaign won -> leads again -> its syncer ends (the source double refuses SELECT) -> Resign of its own lease (monitor "
            "resign-kept-own-lease); op `loop`: the EVALs the store saw (campaign / resign script, id; consecutive equal ones collapsed) with the injections, "
            "replies vs Lean campaignCall / resignCall on the regenerated scripts; wall clock only paces the ticker (1 s) and RunLeader's own end (~5 s): no "
            "verdict depends on a wait, a condition that does not come within 60 s is a broken tie (about 9 s per run). contendsrc ops: two "
            "hosts whose configurations spell ONE source differently through the real InitSyncerConfig + run(): OBSERVATION only (counters contendsrc_*; two "
            "keys = two leases, outside the property; two leaders under one spelling are reported). "
            "Monitors on the real code (independent of Lean; each demands only what C15 states - inequalities relative to ttl, never the "
            "implementation's particular constants): two-holders, two-hosts-told-leader, success-over-foreign-lease, told-leader-without-answer, "
            "success-without-lease (told leader => the store holds the caller's value at least until its deadline), failed-renew-not-reported, "
            "foreign-lease-changed, resign-released-foreign-lease, leads-past-its-lease (clusterTicker has not returned more than one ttl after the SEND of the "
            "last successful campaign/renewal - also when a call never returns), lease-ends-before-next-renewal (ttl written by run() <= renew period), lease-ttl-not-positive, "
            "renew-exceeds-third-of-lease, cluster-section-not-fixed. Everything else (exact expiry, 3 s/600 s/1 s limits, ticker period, "
            "refusals, resign that keeps the lease, follower win) is counters + model diff. distinct_nontrivial = distinct event lists with >=2 "
            "instances and >=4 events (+ distinct kept lease/renew pairs, + host pairs that both campaigned)",
    "trusted": [
        "Redis semantics transcribed in Model/Lease.lean: GET / SET..EX / EXPIRE / DEL on a string key with expiry (live while now <= expiry, "
        "EX seconds = 1000 ms, SET EX 0 is an error, EXPIRE 0 deletes), Lua == / truthiness / scoping for the subset, Lua->RESP reply "
        "conversion, atomicity of one EVAL; non-negative decimal ttl only",
        "Lua-subset parser of the extractor (harness/extract/c15.go) - cross-checked each run against an independently written "
        "parser+interpreter in the lease-store double on the script text the real code sends",
        "etcd semantics transcribed TWICE by hand, in Model/EtcdLease.lean and in the etcd double (harness/overlay/pkg/cluster/vf_c15etcd_store_test.go), "
        "and compared with each other only through the election code (no etcd binary to cross-check): a transaction is validated as a whole (empty key: "
        "refused; put on the executed branch with an unknown lease: refused) and applied atomically, reads inside it see its earlier writes, one new "
        "revision per writing request = create revision of the keys it creates, WithFirstCreate = prefix range / least create revision / limit 1, a key "
        "attached to a lease vanishes when the lease expires (now > deadline) or is revoked, a keep-alive sets the deadline to now + TTL, the server "
        "grants a lease id once. Not modelled: the revision consumed by a lease expiry (the election code compares create revisions for equality and "
        "takes the minimum), mod revisions, watches, compaction, an EMPTY election prefix (the client turns it into the whole key space; never generated)",
        "the etcd client library's lessor (keep-alive every TTL/3, re-connect) is NOT run: keep-alives are harness events with any schedule; "
        "concurrency.NewSession / Session.Close and the clientv3 KV / Txn request builders are the real ones",
        "cluster mode of the lease-store double AND Model/LeaseCluster.lean `serve` (two hand transcriptions of cluster.c getNodeByQuery for one-key requests, "
        "no redis-server to cross-check; they meet only through the real client): -MOVED for a key of a slot the node does not own (nothing executed), "
        "MIGRATING owner: serves a key it has, -ASK <importing node> for one it has not; IMPORTING node: serves after ASKING (one-shot flag of the "
        "connection), else -MOVED; CLUSTER SLOTS names the owner throughout; COMMAND GETKEYS; a completed move takes the keys along. Not transcribed: "
        "-TRYAGAIN (multi-key requests: the election has none), replicas, fail-over, a node that loses a slot while it holds unmigrated keys",
        "lease-store double (RESP server, logical clock, fault injection) in harness/overlay/pkg/cluster/vf_hook_c15_store.go; host part of a peer address: only the spellings '' / 0.0.0.0 / :: of the unspecified address are modelled (Model/Lease.lean unspecHost)",
    ],
    "assumptions": [
        "script atomicity and ONE authoritative clock at the lease store (no claim about wall-clock skew between an instance and the store: "
        "'holder' is defined on the store's clock from the instant the script ran)",
        "the lease store IS the source Redis (client.NewRedis(Input.Redis)), or the etcd cluster of cluster.metaEtcd: a fail-over of the source that "
        "loses the key (asynchronous replication) or a slot re-assigned WITHOUT its keys loses or forks the lease. Exercised: standalone connection and "
        "a cluster-type input whose slots move WITH their keys (-MOVED, re-issue on the node named) or are being migrated key by key (-ASK / ASKING); "
        "proved for the cluster model: cluster_run_refines (any slot table, migration state, stale client table); not exercised, not modelled: fail-over",
        "ELECTION KEY = <ns>/<group>/input-election/<A>/ where A is the source shard's master ADDRESS STRING as THIS instance knows it (cmd/syncer.go "
        "runCluster: cfg.Input.GetClusterShard(cfg.Input.Address()).Master.Address - for a standalone input the string written under "
        "input.redis.addresses, for a cluster input the address CLUSTER NODES reports to this instance). The property is per LEASE (= per key): "
        "instances that name one source by different strings contend through different leases and are outside its quantifier, exactly as two hosts "
        "both configured localhost:18001 are one contender. Two ways this happens: instances with different views of a shard's master during a source "
        "fail-over (unreachable for the harness); two hosts whose configurations spell one source differently (127.0.0.1:p / localhost:p) - observed on "
        "every run by the contendsrc ops (both are told leader, on two keys; counter contendsrc_observed_two_leaders_on_two_keys_spellings_differ, "
        "corpus/C15/d_source_spelling.txt): an operator error no local check can see (deployment rule: the same input section on every host of a "
        "group), not reported",
        "etcd: every etcd theorem is about the election key in the STORE ('holder' = told leader and its key still there at the create revision it "
        "knows); 'stops renewing' = no keep-alive of the session's lease reaches the store - keep-alives are sent by the etcd client library's lessor "
        "(not run by any harness), never by the election code; the server grants a lease id once",
        "etcd lease ttl = int(LeaseTimeout/second) (config fix, source fact etcd_ttl_assign) handed to concurrency.WithTTL (fact etcd_session_args): "
        "NewEtcdCluster itself (clientv3.New + availability probe) cannot run without a server and is tied by these two facts only",
        "instance ids are the configured peer STRINGS (server.listenPeer, else server.listen); equal strings = one contender. Since fix "
        "6c9227b a cluster-mode configuration without a configured address or with an unspecified host is refused (before, every "
        "default-configured host contended as 127.0.0.1:18001 and each was told leader). Host names and loopback are taken as written: two "
        "hosts both configured `localhost:18001` (or the same literal address) still share one identity - an operator error no local "
        "configuration check can see (docs: 'do not use 127.0.0.1'); the theorems REDUCE 'ids distinct' to 'configured strings distinct' "
        "(distinct_addresses_distinct_ids), they do not discharge it",
        "an instance stops acting as leader before it calls Resign: no longer assumed bare - runCluster's loop after the first campaign (lead, stop, "
        "resign / lose, pause, follow, campaign again) has a model, Model/Handover.lean (C16's), and C15 imports its theorems (Props/C15Loop.lean: "
        "loop_resign_only_after_stop, loop_silent_until_campaign_won, loop_campaign_outcome, loop_no_two_senders); that model is tied to the code by "
        "C16's facts and by C16's harness C16ho, which runs the REAL runCluster of two instances through those role changes on the wall clock "
        "(virtual time cannot carry it: real loopback sockets never block durably for testing/synctest - C16ho's finding); C15's OWN run of that loop "
        "against the C15 lease-store double (real Lua scripts): harness C15loop - one instance, lead / lose / resign / refused / win again / resign, on the "
        "wall clock with the lease on the store's logical clock; what it does NOT observe: the instant RunLeader's goroutines have ended relative to "
        "the Resign (only the order of the store's EVALs), hand-over between two real instances (C16ho); the call order sy.Stop / WgWait / Resign stays compared as C15 source facts too. That Stop() really ends every output goroutine is "
        "syncer code outside C15's harnesses; after an error from Campaign/Renew its belief is unchanged until the next answer or its lease runs out",
        "cmd/syncer.go: run(), runCluster up to its first campaign, clusterTicker/clusterRenew/clusterCampaign are executed for real by C15's harnesses, "
        "the rest of runCluster (stop, resign, pauses, follower branch, campaign again) by C15loop for one instance and by C16ho for two; the timing guard of the hand-over model (`timely`) and C15's acting_has_lease say the same in "
        "two vocabularies and are NOT connected by a Lean theorem; a Resign that is skipped or late only delays takeover by <= ttl (takeover_possible)",
        "acting interval (RunLeader running): at_most_one_acting / acting_intervals_disjoint hold for EVERY schedule of sends, script "
        "executions, answers of any lateness or none, abandoned calls, stray executions, stops, crashes and resigns, under ONE schedule "
        "condition (TAllowed): real time does not pass beyond okSent + hold while an instance leads, hold <= ttl. The code meets it since fix "
        "8b531f9 (lease timer in clusterTicker beside the election call; model theorem ticker_leads_within_hold for calls of any duration, "
        "tied by the real clusterTicker under virtual time incl. calls that never return - before the fix the ticker blocked in the call and "
        "the instance kept leading: counter-witness blockedEvs, corpus d_renew_never_returns). hold = leaseHold (store ttl - renew period, on "
        "the INSTANCE's clock) + drift D of that clock against the store's over one lease + time S from clusterTicker's return until "
        "sy.Stop()/WgWait have ended the syncer: assumed D + S <= renew period (at_most_one_acting_from_config: ttl, hold and renew period are the REGENERATED arithmetic of config fix / "
        "run() / leaseHold() / the ticker period - Gen/LeaseArith.lean - for any configuration as written, all numeric hypotheses discharged: "
        "hold + renew = ttl*1s exactly, renew >= 1 s, so 1 s of drift + stop time is always enough: at_most_one_acting_one_second); neither D nor S is "
        "measured. Nothing bounds an election call itself (redisElection ignores its context, client.Do has no deadline: stat "
        "renew_ignores_ctx_deadline every run): a stuck call leaves its goroutine and the client blocked; Resign after such a stall blocks "
        "runCluster (the instance no longer leads; liveness only)",
        "one client connection is shared by all elections of an instance and its registry keep-alive; RedisConn.Do holds its mutex over "
        "send+receive and has no read deadline, so replies cannot be mis-attributed (shared ops exercise concurrent use with a stalled "
        "reply). An ELECTION that abandons an answer at its context's end and keeps using the same object is covered since session 5 "
        "(`late` events: a stale answer handed to a later call is caught with a replay); a CLIENT (RedisConn) that abandons a reply on the wire without "
        "closing the connection is still not: no client-side read deadline exists to trip",
        "the registry keys of redisCluster.Register live under a different prefix and are not modelled",
        "ttl >= 1 s (theorem hypothesis; lease_bounds proves ttl >= 3 for every output of ClusterConfig.fix; cfgfix/leasettl ops tie it)",
    ],
    "partial": [
        "near-definitional theorems, kept as named corollaries, not counted as content: at_most_one_holder_always (instance of "
        "at_most_one_holder), lost_resign_only_own, holder_until_deadline and the first conjunct of expiry_bound (told is frozen while the "
        "instance does not call), election_id_configured / distinct_addresses_distinct_ids (the 3-line definition electionId read backwards; "
        "their content is the tie of electionId to the real configuration code through run())",
        "ticker: two hand-written models of clusterTicker, both executed against the REAL function under virtual time: tickerRun (calls answer at once "
        "or never; theorems ticker_*) and tickerRunD (every answer has a duration, Go ticker keeps one tick / drops the rest, outside close, closed at "
        "entry; theorems tickd_*); since session 5 ONE model: tickerRunD_eq_tickerRun (every role, R > 0, hold, age, tick count, script: tickerRunD on "
        "zero durations without outside close IS tickerRun), ticker_* carried over (tickd_failed_renewal_stops_leader, tickd_blocked_renewal_stops_leader); "
        "the driver's per-scenario comparison stays as a cross-check of the native code. Regenerated from "
        "cmd/syncer.go: the retry count and the base of the re-arm expression (Gen/TickerParams.lean) - the loop structure itself (select / goroutine / "
        "close on error) is hand-transcribed and pinned by the skeleton fingerprint + the branch counters tickd_branch_* (all non-zero). Scenarios in "
        "which two instants coincide (a Go select with two ready cases) and slow FAILING answers are excluded by construction",
        "corollaries / pins kept by name, not counted as content: etcd_at_most_one_holder_always (etcd_at_most_one_holder on evs.take n), "
        "acting_intervals_disjoint (at_most_one_acting on evs.take n), at_most_one_acting_with_drift (at_most_one_acting with hold := H+D+S; D, S not "
        "measured; its instance with the regenerated arithmetic, at_most_one_acting_from_config, is content: the hypotheses hcfg / hh are discharged), "
        "ticker_retry_is_two (rfl on a generated constant), cluster_request_refines_partial (= clientDo_refines); TAllowed (hypothesis of the acting theorems) is now DERIVED in two proved steps (Props/C15Sim.lean): trunOk_iff_local - a system schedule "
        "is allowed iff the LOCAL trace of every instance (its view (now, acting, okSent) of every tick, of its own 'leader' answers and stops; "
        "view_tstep: the system step acts on the view as the local step on the projected events) is locally allowed; ticker_term_localOk - the local "
        "trace emitted by the recursion of leaderLoop (leaderTrace: same tests, same tries, same successor state, emitting tick / ok sent / stop) never "
        "lets time pass okSent + hold, for every script / duration / period / horizon / outside close; lrunOk_idle + lrunOk_append for the stretches "
        "without leadership; at_most_one_acting_of_local = the acting theorem on that hypothesis. STILL OPEN (prose, no Lean statement): that the local "
        "trace of an instance over its whole life (campaign, lead, stop, resign, follow, campaign again = runCluster's loop) is a concatenation of such "
        "terms and idle stretches - needs a model of runCluster that emits system events; leaderTrace is a second recursion beside leaderLoop, tied to it by "
        "leaderTrace_returns_with_loop (it stops exactly when and where leaderLoop returns, goes on leading while it has not)",
        "etcd: success / refusal theorems are for fault-free calls of a live session on a non-empty prefix; expiry_bound / takeover need '/'-terminated "
        "prefixes (as runCluster builds them: two prefixes whose keys could collide are correspondence-only); the key space: etcd_at_most_one_holder_any_keyspace "
        "holds from EVERY well-formed key space (Wf: what an etcd server guarantees) incl. foreign junk under the prefix - executed: `j:<key>:<val>` events at "
        "the head of generated / corpus traces put lease-less foreign keys before the sessions come up, the REAL etcdElection answers as the model does "
        "(an older junk key under the prefix makes every campaign lose for ever and Leader() name the junk value: a liveness loss, no second leader); the "
        "other etcd_* theorems (success iff, expiry bound, takeover) are still stated from the empty key space; a junk key NAMED like the election key of a "
        "session of the trace (<prefix><hex lease id>) is excluded: the server grants a lease id once. EXPLICIT EXCLUSIONS (no theorem, no run): a session "
        "that expires BETWEEN the Txn and the Delete of one Campaign other than through the modelled cut (ct/cd windows cover it), keep-alive RESPONSES lost "
        "while the lease is extended at the store (the lessor is not run: keep-alives are events), compaction / watch / member restore",
        "OBSERVATION about the etcd path, outside C15 (whose text is about the Redis-based lease): NO acting bound with cluster.metaEtcd. Nothing reads "
        "Session.Done(); Renew is only a Get and extends nothing; the lease timer of 8b531f9 is re-armed by every successful Renew, so it measures "
        "'last successful READ + hold', unrelated to the key's remaining life; acting_has_lease / at_most_one_acting are Redis-only and do not carry "
        "over. Witness (Props/C15Etcd.lean etcdActingWitness, checked by decide): grant 1 3, campaign 1, tick 3000, renew 1 -> nil (at the deadline "
        "instant), tick 1, grant 2 3, campaign 2 -> leader while 1 is still told leader (at the store: one holder, 2); instance 1 goes on running "
        "RunLeader until its next Renew (<= one renew period, if its Gets are answered) or until the timer (last Renew + hold). A repair would watch "
        "Session.Done() / arm the timer from keep-alive responses; not attempted (outside the property)",
        "OBSERVATION about the etcd path, liveness, outside C15 (which is about at-most-one): an OLDER FOREIGN KEY under an election prefix makes every "
        "campaign lose for ever and Leader() return the foreign value - Campaign / Renew / Leader read `Get(prefix, WithFirstCreate)` and trust whatever key "
        "is first-created there; nothing checks that it is an election key (<prefix><hex lease id>) or carries a lease, so it never expires and nobody ever "
        "resigns it. Witness, model (Props/C15EtcdJunk.lean, decide): key space [k/zzz = x @create 4, no lease], grant 1 3, campaign k/ 1 -> follower ok; "
        "grant 2 3, campaign k/ 2 -> follower; isHolder 1 = isHolder 2 = false; leader k/ -> 'x'. Witness, REAL etcdElection on the etcd double: corpus "
        "seed_s5.txt `etrace 0 7 11 1=61,2=62 j:6b2f7a7a:78 g:1:3 g:2:3 c:6b2f:1:0 c:6b2f:2:0 l:6b2f …` (both campaigns follower, Leader() = 78 = 'x', also "
        "after t:3001) and ~1.4k generated traces per run (counter etcd_ev_junk_key). At most one holder still holds (etcd_at_most_one_holder_any_keyspace): "
        "zero leaders, not two. A followers' RunFollower(leader) is then handed the junk value as the leader's address. Repair (not attempted, outside the "
        "property): accept only keys attached to a live lease / of the election key shape, or delete lease-less keys under the prefix at start-up",
        "dimensions NOT drawn (audit): a lease key of ANOTHER TYPE (a list / hash under the election key: real Redis answers GET with WRONGTYPE, the "
        "script aborts, Campaign returns an error - double and model know string keys only); two election OBJECTS of one process on one key used "
        "alternately (runCluster creates one per syncer; the objects are stateless today, fact lease_pkg_globals_written = []); MOVED / ASK between the "
        "requests of a call exists for Leader() only (the other calls are ONE request); cluster.metaEtcd options other than ttl (endpoints, auth) reach "
        "only NewEtcdCluster, which no harness can run",
        "cluster-type lease store: model of its own (Model/LeaseCluster.lean: per-node key spaces, slot owner, MIGRATING/IMPORTING, client redirections "
        "MOVED / ASK+ASKING) with a PROVED refinement to the single store for whole runs (cluster_run_refines; CWf = a key of a migrating slot is live on "
        "one of the two nodes only - kept by every event of the model, established by `begin`); the model's `serve` and the double's routing are two hand "
        "transcriptions tied through the real client only (every answer of the real client equals the single-store model's; the NUMBER of requests per "
        "call - clientDo's bound 3 - is not compared); fail-over and a resharding that loses keys stay outside (assumption above)",
        "duration arithmetic: regenerated by an expression translator of this property (harness/extract/c15arith.go: literals, time units folded to "
        "values, the two duration fields, + - * wrapped to int64 when an operand is not constant, / by a positive constant as Int.tdiv hoisted into a "
        "named let, int / int64 / time.Duration conversions as identity = a 64-bit platform; if / else-if chains assigning the two fields, blocks that "
        "touch neither and do not return nil, final return nil; anything else = generator error, broken tie), NOT by gofn (methods on a config pointer, "
        "time.Duration, a package-level getter are outside its subset). gen_fixDur_eq_model is proved by naming every intermediate value and handing "
        "the cases to omega (survives split / merged / reordered clamps, swapped operands, other spellings of the constants); what is NOT regenerated: "
        "that run() / leaseHold() / the ticker read the SAME configuration object that fix() fixed (config.GetSyncerConfig().Cluster: tied by the "
        "cfgfix / leasettl / ticker ops on the real run()), runCluster's late-answer guard `time.Since(leaseFrom) >= sc.leaseHold()` (skeleton fact)",
    ],
}

MANIFEST = {
    "text": "Lean theorems over the two election Lua scripts as re-extracted from pkg/cluster/redis_election.go on every run (parsed into a "
            "small AST; evalLua over a key/value/expiry store with a logical clock): for EVERY list of campaign/renew/resign/leader/tick/"
            "lost-call events by any number of instances on any number of keys, from any initial store, at most one instance per key was "
            "told 'leader' with its lease unexpired (invariant + induction over the event list); success only for the holder or a free key; "
            "failed renewal = ErrNotLeader and loss of holder status; resign deletes only one's own lease; an instance that stops calling "
            "is holder exactly until ttl has passed, then any other contender can take over; a leader whose renewal fails closes its syncer at "
            "that tick (clusterTicker model, executed for real under virtual time); in cluster mode the election id is an address written in the "
            "configuration (default-identity defect found and fixed: 6c9227b); ClusterConfig.fix yields 3s<=lease<=600s, 1s<=renew<=lease/3, ttl in [3,600]. The Go glue "
            "(Campaign/Renew/Resign/Leader through the real RESP client) and fix are tied by differential correspondence against a "
            "lease-store double (standalone and cluster-type: MOVED / re-issue); independent monitors check the property on the real code's answers. "
            "Etcd election (cluster.metaEtcd): the requests of etcd_election.go regenerated into an AST (Gen/EtcdElection.lean), evalTxn over a key space "
            "with create revisions and leases; for EVERY list of grant/keep-alive/revoke/campaign/renew/resign/tick events with lost requests and a "
            "Campaign cut between its transaction and its Delete: at most one session per prefix was told leader with its key still in the store, a "
            "holder's key is the first-created one, success only when no foreign key is older, failed renewal = ErrNotLeader/ErrNoLeader, resign removes "
            "only the own key at the remembered revision, a session without keep-alive holds nothing once its deadline has passed; the real election code "
            "+ real clientv3 request builders + real concurrency.Session run against an in-process etcd double. clusterTicker with calls of ANY duration "
            "(tickerRunD, parameters regenerated): it returns within hold of the SEND of the last successful call; tickerRun is its duration-free section "
            "(tickerRunD_eq_tickerRun). Session 5: the duration arithmetic of config fix / run() ttl / leaseHold() / ticker period regenerated "
            "(Gen/LeaseArith.lean) with gen_fixDur_eq_model, gen_hold_plus_renew (hold + renew = ttl exactly, nothing wraps) and the acting theorem from "
            "those constants only (at_most_one_acting_from_config: drift + stop time <= renew period, >= 1 s); a cluster-type lease store with MOVED and "
            "ASK / ASKING (Model/LeaseCluster.lean) refines the single store over whole runs (cluster_run_refines), the real client's handleAsk is run "
            "against a migrating double.",
    "note": "trusted: Lean kernel (propext, Classical.choice, Quot.sound only), Redis/Lua semantics of the subset as transcribed, script "
            "atomicity + single store clock, extractor's Lua parser (cross-checked against the double's interpreter), lease-store double; "
            "etcd semantics (transcribed in model and double, no etcd binary), etcd client lessor not run; "
            "cmd/syncer.go loop after the first campaign tied only by source facts; with metaEtcd no acting bound (observation in partial)",
    "technique": "Lean 4 proof (symbolic evaluation of the regenerated script ASTs to closed-form specs, invariant + induction over event "
                 "lists, omega for durations) + differential correspondence over loopback RESP + independent monitors",
}
