EVAL_ARGS = ['"eval"', "lua", '[]byte("1")', "e.key", "e.id", "e.ttl"]

PROP = {
    "lean_modules": ["GunYu.Props.C15"],
    "audit_namespaces": ["GunYu.Props.C15"],
    "required_theorems": [
        "GunYu.Props.C15.at_most_one_holder",
        "GunYu.Props.C15.at_most_one_holder_always",
        "GunYu.Props.C15.holder_is_in_store",
        "GunYu.Props.C15.success_only_holder_or_free",
        "GunYu.Props.C15.refused_when_foreign",
        "GunYu.Props.C15.failed_renew_reports_loss",
        "GunYu.Props.C15.resign_only_own",
        "GunYu.Props.C15.lost_resign_only_own",
        "GunYu.Props.C15.expiry_bound",
        "GunYu.Props.C15.expiry_bound_campaign",
        "GunYu.Props.C15.holder_until_deadline",
        "GunYu.Props.C15.takeover_possible",
        "GunYu.Props.C15.ticker_failed_renewal_stops_leader",
        "GunYu.Props.C15.election_id_configured",
        "GunYu.Props.C15.distinct_addresses_distinct_ids",
        "GunYu.Props.C15.renew_le_third",
        "GunYu.Props.C15.lease_bounds",
        "GunYu.Props.C15.two_renewals_within_ttl",
    ],
    # how the scripts are invoked and how cmd/syncer.go uses the election
    # (cmd/ is not run in-process; a change here must be re-read against the model)
    "expected_facts": {
        "lease_eval_args_campaign": EVAL_ARGS,
        "lease_eval_args_resign": EVAL_ARGS,
        "lease_body_renew": "{ role, err := e.Campaign(ctx) if err != nil { return err } if role != RoleLeader { return ErrNotLeader } return nil }",
        "lease_body_leader": "{ res, err := common.String(e.cli.Do(\"GET\", e.key)) return &RoleInfo{ Address: res, Role: RoleLeader, }, err }",
        "lease_ttl_expr": "int(config.GetSyncerConfig().Cluster.LeaseTimeout / time.Second)",
        "lease_ticker_period": "config.GetSyncerConfig().Cluster.LeaseRenewInterval",
        "lease_ticker_calls": ["IsClosed", "NewTicker", "GetSyncerConfig", "Stop", "Done", "Context", "Retry",
                               "clusterRenew", "Context", "Errorf", "clusterCampaign", "Context", "Errorf", "Infof",
                               "String", "Inc", "Close", "Join", "Close"],
        # whole-function fingerprints (sha256/64 of the printed source): clusterTicker is executed by the harness,
        # runCluster only up to its first campaign - any edit needs a conscious re-read against the assumptions
        "lease_src_clusterTicker": "ee409cb22a03a230",
        "lease_src_clusterRenew": "4d75433c42b33d37",
        "lease_src_clusterCampaign": "a9bf5c284ce2821d",
        "lease_src_runCluster": "7b5c0acc6d9663c0",
        "lease_newelection_args": ["runWait.Context()", "key", "config.GetSyncerConfig().Server.ListenPeer"],
        "lease_key_expr": "fmt.Sprintf(\"%s/%s/input-election/%s/\", config.NamespacePrefixKey, config.GetSyncerConfig().Cluster.GroupName, shardKey)",
        "lease_runcluster_order": ["sc.clusterCampaign", "sy.RunLeader", "elect.Leader", "sy.RunFollower",
                                   "sc.clusterTicker", "sy.Stop", "syncerWait.WgWait", "elect.Resign"],
    },
    "harness": [
        {"name": "C15", "pkg": "./pkg/cluster/", "test": "TestVerifC15", "timeout_quick": "10m", "timeout_thorough": "40m"},
        {"name": "C15fix", "pkg": "./config/", "test": "TestVerifC15Fix"},
        {"name": "C15cmd", "pkg": "./cmd/", "test": "TestVerifC15Cmd", "timeout_quick": "10m", "timeout_thorough": "30m"},
    ],
    "driver": "drv_C15",
    "rule": "event lists: corpus; ALL lists of length<=4 (quick) / <=5 (thorough) over {campaign a, campaign b, renew a, resign a, resign b, "
            "tick ttl/2, tick ttl+1ms, lost-but-applied campaign b}; generated lists of 1-40 events with 1-4 instances (own TCP connection "
            "each, ids incl. empty / 'false' / non-UTF-8), 1-2 election keys, ttl 1..600 s (ttl=0 corner for correspondence only), arbitrary "
            "initial store contents (foreign, own-from-earlier-incarnation, expired), ticks aimed at lease expiry -1/0/+1 ms, lost campaigns "
            "and resigns (error reply or dropped connection, script executed or not); request-level interleavings: p:<call>:<key>:<id>:<k> starts a "
            "call whose (k+1)-th Redis request is held by the store while other instances act and the clock moves, g:<id> releases it (ALL windows "
            "of length<=2 quick / <=3 thorough over {tick ttl/2, tick ttl+1, campaign b, renew b, resign b} x call kind x k in {1,2} x 5 prefixes x 3 "
            "suffixes, plus random ones; for one-request calls p = the plain call). Every event: result of the REAL "
            "redisElection.Campaign/Renew/Resign/Leader via NewRedisCluster + the real RESP client over loopback, live store contents and "
            "holder set, compared line by line with the Lean model (scripts = regenerated AST). lua ops: the double's Lua interpreter on the "
            "script text received at run time vs Lean evalLua on the regenerated AST, random stores/KEYS/ARGV incl. malformed ttl. "
            "fix ops: real (*ClusterConfig).fix on a 32x32 grid of boundary durations + generated int64 durations vs Lean fixCfg; cfgfix ops: whole "
            "yaml configurations through InitSyncerConfig (cluster section with/without groupName, metaEtcd, lease/renew on a 13x13 grid, fields "
            "omitted) - a surviving cluster section must be fixed. C15cmd: ident/contend ops: every pair of two hosts' server sections (listen x "
            "listenPeer unset / host address / 0.0.0.0 / loopback / ':port') through the real InitSyncerConfig + the REAL (*SyncerCmd).runCluster "
            "(key and election id derivation, first campaign) + real redis election against the lease-store double at one instant; ticker ops: "
            "the REAL (*SyncerCmd).clusterTicker under testing/synctest with a scripted Election, ALL answer scripts of length<=4 (quick) / <=6 "
            "(thorough) for both roles + random scripts/periods, calls with their virtual instants and when/how the syncer's wait is closed vs "
            "Lean tickerRun. "
            "Monitors on the real code (independent of Lean): two-holders, success-over-foreign-lease, success-without-full-lease, "
            "failed-renew-not-reported, foreign-lease-changed, resign-released-foreign-lease, resign-keeps-own-lease, lost-call-not-an-error, "
            "lease/renew/ttl-out-of-bounds, cluster-section-not-fixed, two-hosts-told-leader, failed-renewal-not-acted-on, "
            "follower-win-not-acted-on, ticker-period. distinct_nontrivial = distinct event lists with >=2 instances and >=4 events (+ distinct kept "
            "lease/renew pairs)",
    "trusted": [
        "Redis semantics transcribed in Model/Lease.lean: GET / SET..EX / EXPIRE / DEL on a string key with expiry (live while now <= expiry, "
        "EX seconds = 1000 ms, SET EX 0 is an error, EXPIRE 0 deletes), Lua == / truthiness / scoping for the subset, Lua->RESP reply "
        "conversion, atomicity of one EVAL; non-negative decimal ttl only",
        "Lua-subset parser of the extractor (harness/extract/c15.go) - cross-checked each run against an independently written "
        "parser+interpreter in the lease-store double on the script text the real code sends",
        "lease-store double (RESP server, logical clock, fault injection) in harness/overlay/pkg/cluster/vf_c15_store_test.go",
    ],
    "assumptions": [
        "script atomicity and ONE authoritative clock at the lease store (no claim about wall-clock skew between an instance and the store: "
        "'holder' is defined on the store's clock from the instant the script ran)",
        "instance ids are distinct. Reduced to: the peer addresses WRITTEN in the hosts' configurations (server.listenPeer, else server.listen) "
        "are distinct (election_id_configured / distinct_addresses_distinct_ids; since fix 6c9227b a cluster-mode configuration without a "
        "configured address, or with an unspecified one, is refused - before, every default-configured host contended as 127.0.0.1:18001 and "
        "each was told leader). Two hosts explicitly given the same address remain one contender for the store",
        "an instance stops acting as leader before it calls Resign (runCluster: sy.Stop(); syncerWait.WgWait(); elect.Resign - statement "
        "order compared as source fact lease_runcluster_order); after an error from Campaign/Renew its belief is unchanged until the next "
        "answer or until its lease (counted from its last success) runs out",
        "cmd/syncer.go: clusterTicker is executed for real (scripted Election, virtual time) and runCluster up to its first campaign; the rest "
        "of runCluster (start/stop of the syncer around the ticker, Resign after sy.Stop/WgWait) is tied by source facts only (statement order "
        "+ whole-function fingerprints); a Resign that is skipped or late only delays takeover by <= ttl (takeover_possible)",
        "'holder' is a ghost notion on the STORE's clock (told leader + within ttl of the last success, holder_until_deadline). What the "
        "instance does is: keep RunLeader going until an answer says otherwise (ticker_failed_renewal_stops_leader). NOT covered: an instance "
        "whose renewal call never returns keeps leading past its lease - redisElection.Campaign ignores its context (client.Do has no deadline; "
        "measured every run: stat renew_ignores_ctx_deadline), so clusterRenew's WithTimeout(LeaseRenewInterval) has no effect; nor clock "
        "drift between instance and store. The property text speaks of being TOLD leader while the lease is unexpired, which this does not "
        "contradict",
        "lease store reached through client.NewRedis(Input.Redis) as a standalone connection; a cluster-type input (EVAL routed by key, MOVED, "
        "re-issue on another node) is not exercised",
        "the registry keys of redisCluster.Register live under a different prefix and are not modelled",
        "ttl >= 1 s (theorem hypothesis; lease_bounds proves ttl >= 3 for every output of ClusterConfig.fix)",
    ],
    "partial": [],
}

MANIFEST = {
    "text": "Lean theorems over the two election Lua scripts as re-extracted from pkg/cluster/redis_election.go on every run (parsed into a "
            "small AST; evalLua over a key/value/expiry store with a logical clock): for EVERY list of campaign/renew/resign/leader/tick/"
            "lost-call events by any number of instances on any number of keys, from any initial store, at most one instance per key was "
            "told 'leader' with its lease unexpired (invariant + induction over the event list); success only for the holder or a free key; "
            "failed renewal = ErrNotLeader and loss of holder status; resign deletes only one's own lease; an instance that stops calling "
            "is holder exactly until ttl has passed, then any other contender can take over; a leader whose renewal fails closes its syncer at "
            "that tick (clusterTicker model, executed for real under virtual time); in cluster mode the election id is an address written in the "
            "configuration (default-identity defect found and fixed: 6c9227b); ClusterConfig.fix yields 3s<=lease<=600s, 1s<=renew<=lease/3, ttl in [3,600]. The Go glue "
            "(Campaign/Renew/Resign/Leader through the real RESP client) and fix are tied by differential correspondence against a "
            "lease-store double; independent monitors check the property on the real code's answers.",
    "note": "trusted: Lean kernel (propext, Classical.choice, Quot.sound only), Redis/Lua semantics of the subset as transcribed, script "
            "atomicity + single store clock, extractor's Lua parser (cross-checked against the double's interpreter), lease-store double; "
            "cmd/syncer.go loop tied only by source facts",
    "technique": "Lean 4 proof (symbolic evaluation of the regenerated script ASTs to closed-form specs, invariant + induction over event "
                 "lists, omega for durations) + differential correspondence over loopback RESP + independent monitors",
}
