PROP = {
    "lean_modules": ["GunYu.Props.C15"],
    "audit_namespaces": ["GunYu.Props.C15"],
    "required_theorems": [
        "GunYu.Props.C15.at_most_one_holder",
        "GunYu.Props.C15.at_most_one_holder_always",
        "GunYu.Props.C15.holder_is_in_store",
        "GunYu.Props.C15.success_only_holder_or_free",
        "GunYu.Props.C15.refused_when_foreign",
        "GunYu.Props.C15.failed_renew_reports_loss",
        "GunYu.Props.C15.resign_only_own",
        "GunYu.Props.C15.lost_resign_only_own",
        "GunYu.Props.C15.expiry_bound",
        "GunYu.Props.C15.expiry_bound_campaign",
        "GunYu.Props.C15.holder_until_deadline",
        "GunYu.Props.C15.takeover_possible",
        "GunYu.Props.C15.at_most_one_acting",
        "GunYu.Props.C15.acting_intervals_disjoint",
        "GunYu.Props.C15.acting_has_lease",
        "GunYu.Props.C15.at_most_one_acting_with_drift",
        "GunYu.Props.C15.ticker_returns_by_deadline",
        "GunYu.Props.C15.ticker_leads_within_hold",
        "GunYu.Props.C15.ticker_failed_renewal_stops_leader",
        "GunYu.Props.C15.ticker_stops_before_lease_deadline",
        "GunYu.Props.C15.ticker_blocked_renewal_stops_leader",
        "GunYu.Props.C15.election_id_configured",
        "GunYu.Props.C15.distinct_addresses_distinct_ids",
        "GunYu.Props.C15.renew_le_third",
        "GunYu.Props.C15.lease_bounds",
        "GunYu.Props.C15.two_renewals_within_ttl",
    ],
    # Only the part of cmd/syncer.go that NO harness executes is pinned by source facts: runCluster after its first
    # campaign (syncer start/stop around the ticker, resign): the order of the calls that matter and the control-flow
    # skeleton (log/metric statements removed, string literals blanked, sha256/64 - a changed message or comment does
    # not alarm). Everything else (scripts, Campaign/Renew/Resign/Leader glue, run(), runCluster up to the first
    # campaign, clusterTicker/clusterRenew/clusterCampaign, config fix) is executed and needs no fact.
    "expected_facts": {
        "lease_skel_runCluster": "cb26da7fa3825564",
        "lease_runcluster_order": ["sc.clusterCampaign", "sy.RunLeader", "elect.Leader", "sy.RunFollower",
                                   "sc.clusterTicker", "sy.Stop", "syncerWait.WgWait", "elect.Resign"],
        # loop shape of the ticker (executed under virtual time as well): what the ticker theorems are about
        "lease_skel_clusterTicker": "b413045d51e23d82",
        "lease_ticker_retry": "2",
        "lease_timer_arm": "time.Until(leaseFrom.Add(sc.leaseHold()))",
        "lease_timer_rearm": "time.Until(sentAt.Add(sc.leaseHold()))",
        "lease_hold_expr": "time.Duration(int(cc.LeaseTimeout/time.Second))*time.Second - cc.LeaseRenewInterval",
    },
    "harness": [
        {"name": "C15", "pkg": "./pkg/cluster/", "test": "TestVerifC15", "timeout_quick": "10m", "timeout_thorough": "40m"},
        {"name": "C15fix", "pkg": "./config/", "test": "TestVerifC15Fix"},
        {"name": "C15cmd", "pkg": "./cmd/", "test": "TestVerifC15Cmd", "timeout_quick": "10m", "timeout_thorough": "30m"},
    ],
    "driver": "drv_C15",
    "rule": "event lists: corpus; ALL lists of length<=4 (quick) / <=5 (thorough) over {campaign a, campaign b, renew a, resign a, resign b, "
            "tick ttl/2, tick ttl+1ms, lost-but-applied campaign b}; generated lists of 1-40 events with 1-4 instances (own TCP connection "
            "each, ids incl. empty / 'false' / non-UTF-8), 1-2 election keys, ttl 1..600 s (ttl=0 corner for correspondence only), arbitrary "
            "initial store contents (foreign, own-from-earlier-incarnation, expired), ticks aimed at lease expiry -1/0/+1 ms, lost campaigns "
            "and resigns (error reply or dropped connection, script executed or not); request-level interleavings: p:<call>:<key>:<id>:<k> starts a "
            "call whose (k+1)-th Redis request is held by the store while other instances act and the clock moves, g:<id> releases it (ALL windows "
            "of length<=2 quick / <=3 thorough over {tick ttl/2, tick ttl+1, campaign b, renew b, resign b} x call kind x k in {1,2} x 5 prefixes x 3 "
            "suffixes, plus random ones; for one-request calls p = the plain call). Every event: result of the REAL "
            "redisElection.Campaign/Renew/Resign/Leader via NewRedisCluster + the real RESP client over loopback, live store contents and "
            "holder set, compared line by line with the Lean model (scripts = regenerated AST). lua ops: the double's Lua interpreter on the "
            "script text received at run time vs Lean evalLua on the regenerated AST, random stores/KEYS/ARGV incl. malformed ttl. "
            "fix ops: real (*ClusterConfig).fix on a 32x32 grid of boundary durations + generated int64 durations vs Lean fixCfg; cfgfix ops: whole "
            "yaml configurations through InitSyncerConfig (cluster section with/without groupName, metaEtcd, lease/renew on a 13x13 grid, fields "
            "omitted) - a surviving cluster section must be usable (ttl >= 1, 0 < renew <= lease/3, renew < ttl). C15cmd: ident ops: every server "
            "section (listen unset / host IP / 0.0.0.0 / loopback / ':port' / localhost x listenPeer unset / IP / 0.0.0.0 / host name / [::]) "
            "with and without cluster section through the real InitSyncerConfig, real fixConfig and the REAL (*SyncerCmd).run() (builds the "
            "lease-store client with its own ttl, registers, runCluster derives key and election id and campaigns through the real redis "
            "election; the double holds the reply of that first EVAL while the harness reads the store and closes the run); contend ops: pairs "
            "of two hosts' server sections (quick: 12x12 sub-matrix, thorough: 30x30) run that way at one instant on the store's clock; "
            "leasettl ops: 12x8 grid of leaseTimeout x leaseRenewInterval (incl. unset), ttl as written to the store by the real run() and the "
            "renew period vs Lean ttlSeconds/fixCfg; ticker ops: the REAL (*SyncerCmd).clusterTicker (+ real clusterRenew/clusterCampaign/leaseHold) "
            "under testing/synctest with a scripted Election whose answers are ok / ErrNotLeader / error / A CALL THAT NEVER RETURNS, ALL "
            "scripts of length<=4 (quick) / <=5 (thorough) for both roles (R 1.5 s, lease 5 s, campaign sent 200 ms before), each leader "
            "script of length<=2 also followed by 10 failures, + random scripts, periods 1-200 s, leases >= 3 periods: calls with their "
            "virtual instants, when/how the syncer's wait is closed and when clusterTicker RETURNS vs Lean tickerRun (exact periods / same-instant reaction are compared THERE only); shared "
            "ops: one client shared by two elections used concurrently while a reply is stalled. "
            "Monitors on the real code (independent of Lean; each demands only what C15 states - inequalities relative to ttl, never the "
            "implementation's particular constants): two-holders, two-hosts-told-leader, success-over-foreign-lease, told-leader-without-answer, "
            "success-without-lease (told leader => the store holds the caller's value at least until its deadline), failed-renew-not-reported, "
            "foreign-lease-changed, resign-released-foreign-lease, leads-past-its-lease (clusterTicker has not returned more than one ttl after the SEND of the "
            "last successful campaign/renewal - also when a call never returns), lease-ends-before-next-renewal (ttl written by run() <= renew period), lease-ttl-not-positive, "
            "renew-exceeds-third-of-lease, cluster-section-not-fixed. Everything else (exact expiry, 3 s/600 s/1 s limits, ticker period, "
            "refusals, resign that keeps the lease, follower win) is counters + model diff. distinct_nontrivial = distinct event lists with >=2 "
            "instances and >=4 events (+ distinct kept lease/renew pairs, + host pairs that both campaigned)",
    "trusted": [
        "Redis semantics transcribed in Model/Lease.lean: GET / SET..EX / EXPIRE / DEL on a string key with expiry (live while now <= expiry, "
        "EX seconds = 1000 ms, SET EX 0 is an error, EXPIRE 0 deletes), Lua == / truthiness / scoping for the subset, Lua->RESP reply "
        "conversion, atomicity of one EVAL; non-negative decimal ttl only",
        "Lua-subset parser of the extractor (harness/extract/c15.go) - cross-checked each run against an independently written "
        "parser+interpreter in the lease-store double on the script text the real code sends",
        "lease-store double (RESP server, logical clock, fault injection) in harness/overlay/pkg/cluster/vf_hook_c15_store.go; host part of a peer address: only the spellings '' / 0.0.0.0 / :: of the unspecified address are modelled (Model/Lease.lean unspecHost)",
    ],
    "assumptions": [
        "script atomicity and ONE authoritative clock at the lease store (no claim about wall-clock skew between an instance and the store: "
        "'holder' is defined on the store's clock from the instant the script ran)",
        "the lease store IS the source Redis (client.NewRedis(Input.Redis)): a fail-over of the source loses or forks the lease; reached as "
        "a standalone connection in the harness - a cluster-type input (EVAL routed by key, MOVED, re-issue on another node) is not exercised",
        "the lease key is built from the source shard's master ADDRESS as each instance sees it (not a shard identity): instances with "
        "different views of a shard's master (during a source fail-over) contend on different keys for one shard. Outside the model",
        "instance ids are the configured peer STRINGS (server.listenPeer, else server.listen); equal strings = one contender. Since fix "
        "6c9227b a cluster-mode configuration without a configured address or with an unspecified host is refused (before, every "
        "default-configured host contended as 127.0.0.1:18001 and each was told leader). Host names and loopback are taken as written: two "
        "hosts both configured `localhost:18001` (or the same literal address) still share one identity - an operator error no local "
        "configuration check can see (docs: 'do not use 127.0.0.1'); the theorems REDUCE 'ids distinct' to 'configured strings distinct' "
        "(distinct_addresses_distinct_ids), they do not discharge it",
        "an instance stops acting as leader before it calls Resign (runCluster: sy.Stop(); syncerWait.WgWait(); elect.Resign - call order + "
        "control-flow skeleton compared as source facts; that Stop() really ends every output goroutine is syncer code outside C15's "
        "harnesses); after an error from Campaign/Renew its belief is unchanged until the next answer or until its lease runs out",
        "cmd/syncer.go: run(), runCluster up to its first campaign, clusterTicker/clusterRenew/clusterCampaign are executed for real; the rest "
        "of runCluster is tied by source facts only; a Resign that is skipped or late only delays takeover by <= ttl (takeover_possible)",
        "acting interval (RunLeader running): at_most_one_acting / acting_intervals_disjoint hold for EVERY schedule of sends, script "
        "executions, answers of any lateness or none, abandoned calls, stray executions, stops, crashes and resigns, under ONE schedule "
        "condition (TAllowed): real time does not pass beyond okSent + hold while an instance leads, hold <= ttl. The code meets it since fix "
        "8b531f9 (lease timer in clusterTicker beside the election call; model theorem ticker_leads_within_hold for calls of any duration, "
        "tied by the real clusterTicker under virtual time incl. calls that never return - before the fix the ticker blocked in the call and "
        "the instance kept leading: counter-witness blockedEvs, corpus d_renew_never_returns). hold = leaseHold (store ttl - renew period, on "
        "the INSTANCE's clock) + drift D of that clock against the store's over one lease + time S from clusterTicker's return until "
        "sy.Stop()/WgWait have ended the syncer: assumed D + S <= renew period (>= 1 s) (at_most_one_acting_with_drift); neither D nor S is "
        "measured. Nothing bounds an election call itself (redisElection ignores its context, client.Do has no deadline: stat "
        "renew_ignores_ctx_deadline every run): a stuck call leaves its goroutine and the client blocked; Resign after such a stall blocks "
        "runCluster (the instance no longer leads; liveness only)",
        "one client connection is shared by all elections of an instance and its registry keep-alive; RedisConn.Do holds its mutex over "
        "send+receive and has no read deadline, so replies cannot be mis-attributed (shared ops exercise concurrent use with a stalled "
        "reply). A client that abandons a reply without closing the connection (read deadline added naively) is not covered: the double "
        "stalls on a logical clock, no client-side timeout exists to trip",
        "the registry keys of redisCluster.Register live under a different prefix and are not modelled",
        "ttl >= 1 s (theorem hypothesis; lease_bounds proves ttl >= 3 for every output of ClusterConfig.fix; cfgfix/leasettl ops tie it)",
    ],
    "partial": [
        "near-definitional theorems, kept as named corollaries, not counted as content: at_most_one_holder_always (instance of "
        "at_most_one_holder), lost_resign_only_own, holder_until_deadline and the first conjunct of expiry_bound (told is frozen while the "
        "instance does not call), election_id_configured / distinct_addresses_distinct_ids (the 3-line definition electionId read backwards; "
        "their content is the tie of electionId to the real configuration code through run())",
        "ticker theorems are about the 10-line model tickerRun (tied by all scripts <= 4/6 + random under virtual time), not about cmd/syncer.go directly",
    ],
}

MANIFEST = {
    "text": "Lean theorems over the two election Lua scripts as re-extracted from pkg/cluster/redis_election.go on every run (parsed into a "
            "small AST; evalLua over a key/value/expiry store with a logical clock): for EVERY list of campaign/renew/resign/leader/tick/"
            "lost-call events by any number of instances on any number of keys, from any initial store, at most one instance per key was "
            "told 'leader' with its lease unexpired (invariant + induction over the event list); success only for the holder or a free key; "
            "failed renewal = ErrNotLeader and loss of holder status; resign deletes only one's own lease; an instance that stops calling "
            "is holder exactly until ttl has passed, then any other contender can take over; a leader whose renewal fails closes its syncer at "
            "that tick (clusterTicker model, executed for real under virtual time); in cluster mode the election id is an address written in the "
            "configuration (default-identity defect found and fixed: 6c9227b); ClusterConfig.fix yields 3s<=lease<=600s, 1s<=renew<=lease/3, ttl in [3,600]. The Go glue "
            "(Campaign/Renew/Resign/Leader through the real RESP client) and fix are tied by differential correspondence against a "
            "lease-store double; independent monitors check the property on the real code's answers.",
    "note": "trusted: Lean kernel (propext, Classical.choice, Quot.sound only), Redis/Lua semantics of the subset as transcribed, script "
            "atomicity + single store clock, extractor's Lua parser (cross-checked against the double's interpreter), lease-store double; "
            "cmd/syncer.go loop tied only by source facts",
    "technique": "Lean 4 proof (symbolic evaluation of the regenerated script ASTs to closed-form specs, invariant + induction over event "
                 "lists, omega for durations) + differential correspondence over loopback RESP + independent monitors",
}
