# session 5: the bodies of isBisyncNamespaceKey / touchesBisyncNamespace / isBisyncControlCommand / isBisyncMarkerCommand /
# isBisyncMarkerExpiryCommand / isBisyncMirroredTransaction and of the five checkpoint.IsBisync…Key predicates are no longer
# compared as printed text: they are REGENERATED as Lean (generators gofn_bisyncpreds, gofn_bisynckeypreds) and proved equal
# to the hand model (Props/C13Gen.lean). Only bisyncSlotMode (reads ro.cfg: outside the translator's subset) stays a text fact.
SLOTMODE_BODY = "{ if ro.cfg.Redis.IsCluster() { return bisyncSlotMode{} } slot := uint16(0) return bisyncSlotMode{ forceSlot: &slot, allowCrossSlot: true, } }"

# facts about every place the tool writes to the target on the bidirectional path (harness/extract/c13.go); the Lean
# inventory Proofs/BisyncWriters.lean `Writer` and Model/BisyncNames.lean were read from exactly this code
C13_WRITER_FACTS = {'c13_all_writers': {'cmd/syncer.go:SyncerCmd.clusterCampaign': ['Campaign()'],
                     'cmd/syncer.go:SyncerCmd.gcStaleCheckpoint': ['DelStaleCheckpoint()', 'DelCheckpointHash()'],
                     'cmd/syncer.go:SyncerCmd.runCluster': ['Resign()'],
                     'cmd/syncer_api.go:SyncerCmd.delCheckpoints': ['DelCheckpoint()'],
                     'cmd/syncer_api.go:SyncerCmd.flushdb': ['Do(flushCmd…)'],
                     'cmd/syncer_api.go:SyncerCmd.fullSyncHandler': ['takeover()', 'flushdb()'],
                     'cmd/syncer_api.go:SyncerCmd.takeover': ['Do(req…)', 'takeover()', 'takeover()'],
                     'pkg/cluster/redis_cluster.go:redisCluster.Register': ['Do("set"×4)', 'Do("set"×4)', 'Do("del"×1)'],
                     'pkg/cluster/redis_election.go:redisElection.Campaign': ['Do("eval"×5)'],
                     'pkg/cluster/redis_election.go:redisElection.Renew': ['Campaign()'],
                     'pkg/cluster/redis_election.go:redisElection.Resign': ['Do("eval"×5)'],
                     'pkg/redis/checkpoint/bisync.go:DeleteBisyncCommitKeys': ['Put("del"×1)', 'flush()', 'flush()'],
                     'pkg/redis/checkpoint/bisync.go:SaveBisyncFrontierSnapshot': ['Do("hset"×…)'],
                     'pkg/redis/checkpoint/bisync.go:SaveBisyncNamespaceMode': ['Do("hset"×5)'],
                     'pkg/redis/checkpoint/checkpoint.go:DelCheckpoint': ['DelCheckpoints()'],
                     'pkg/redis/checkpoint/checkpoint.go:DelCheckpointHash': ['HDel()'],
                     'pkg/redis/checkpoint/checkpoint.go:DelCheckpoints': ['Do("hdel"×5)'],
                     'pkg/redis/checkpoint/checkpoint.go:DelStaleCheckpoint': ['Do("hdel"×…)'],
                     'pkg/redis/checkpoint/checkpoint.go:ResolveOrCreateBisyncCheckpointName': ['Do("hsetnx"×3)'],
                     'pkg/redis/checkpoint/checkpoint.go:SetCheckpoint': ['Do("hset"×…)'],
                     'pkg/redis/checkpoint/checkpoint.go:SetCheckpointHash': ['HSet()'],
                     'pkg/redis/checkpoint/checkpoint.go:UpdateCheckpoint': ['SetCheckpoint()',
                                                                             'SetCheckpointHash()',
                                                                             'DelCheckpoint()',
                                                                             'DelCheckpointHash()'],
                     'pkg/redis/redis_lock.go:SRedisLocker.Lock': ['Do("set"×5)'],
                     'pkg/redis/redis_lock.go:SRedisLocker.Renew': ['Do("eval"×5)'],
                     'pkg/redis/redis_lock.go:SRedisLocker.Unlock': ['Do("eval"×4)'],
                     'pkg/redis/util.go:HDel': ['Do("hdel"×2)', 'Do("hdel"×…)'],
                     'pkg/redis/util.go:HSet': ['Do("hset"×…)'],
                     'pkg/redis/util.go:hset': ['Do("hset"×3)'],
                     'pkg/redis/util.go:lpush': ['Do("lpush"×2)'],
                     'pkg/redis/util.go:rpush': ['Do("rpush"×2)'],
                     'pkg/redis/util.go:sadd': ['Do("sadd"×2)'],
                     'pkg/redis/util.go:set': ['Do("set"×2)'],
                     'pkg/redis/util.go:zadd': ['Do("zadd"×3)'],
                     'syncer/bisync.go:RedisOutput.bisyncStartPoint': ['purgeBisyncRecoveryState()', 'cleanupRecoveredBisyncCommitRecords()'],
                     'syncer/bisync.go:RedisOutput.cleanupRecoveredBisyncCommitRecords': ['SaveBisyncFrontierSnapshot()',
                                                                                          'DeleteBisyncCommitKeys()',
                                                                                          'Put("zrem"×…)'],
                     'syncer/bisync.go:RedisOutput.dispatchBisyncPipeline': ['dispatchBisyncUnit()'],
                     'syncer/bisync.go:RedisOutput.dispatchBisyncUnit': ['Put("set"×4)', 'Put(cmd.Cmd…)', 'Put("hset"×…)', 'Put("zadd"×3)'],
                     'syncer/bisync.go:RedisOutput.execBisyncUnit': ['dispatchBisyncUnit()'],
                     'syncer/bisync.go:RedisOutput.purgeBisyncRecoveryState': ['DeleteBisyncCommitKeys()', 'Put("zrem"×…)', 'Do("del"×1)'],
                     'syncer/bisync.go:RedisOutput.receiveBisyncPipeline': ['flush()'],
                     'syncer/bisync.go:RedisOutput.sendBisyncParallel': ['dispatchBisyncUnit()', 'flush()', 'flush()', 'flush()'],
                     'syncer/bisync.go:RedisOutput.sendBisyncPipeline': ['flush()'],
                     'syncer/bisync.go:RedisOutput.sendBisyncSync': ['execBisyncUnit()'],
                     'syncer/bisync.go:bisyncFrontierCoordinator.flush': ['SaveBisyncFrontierSnapshot()', 'DeleteBisyncCommitKeys()', 'Put("zrem"×…)'],
                     'syncer/bisync.go:bisyncFrontierCoordinator.onCommitted': ['flush()'],
                     'syncer/bisync_rdb.go:RedisOutput.execBisyncRdbGlobalUnit': ['execBisyncRdbUnit()'],
                     'syncer/bisync_rdb.go:RedisOutput.execBisyncRdbUnit': ['Put("set"×4)', 'Put(cmd.Cmd…)'],
                     'syncer/bisync_rdb.go:RedisOutput.rdbReplayBisync': ['execBisyncRdbUnit()'],
                     'syncer/channel.go:StoreChannel.SetRunId': ['SetRunId()'],
                     'syncer/input.go:RedisInput.Run': ['checkSyncDelay()'],
                     'syncer/input.go:RedisInput.checkSyncDelay': ['Do("set"×2)'],
                     'syncer/input.go:RedisInput.sendOutput': ['ResetStartPoint()'],
                     'syncer/input.go:RedisInput.syncMeta': ['SetRunId()', 'ResetStartPoint()', 'SetRunId()'],
                     'syncer/output.go:RedisOutput.ResetStartPoint': ['DelCheckpoints()', 'purgeBisyncRecoveryState()', 'DeleteBisyncCommitKeys()'],
                     # /repo bf252d5 (another owner's fix, session 5): SetRunId first finishes the relabel of an earlier failed call (a second
                     # UpdateCheckpoint with the pending id) - the same writer procedure twice, every request of it a rootWrites / hashSet / hashDel form
                     'syncer/output.go:RedisOutput.SetRunId': ['UpdateCheckpoint()', 'UpdateCheckpoint()'],
                     'syncer/output.go:RedisOutput.sendAof': ['sendCmdsBatch()'],
                     'syncer/output.go:RedisOutput.sendCmdsBatch': ['Put("multi"×0)',
                                                                    'Put(ce.Cmd…)',
                                                                    'Put("exec"×0)',
                                                                    'Put("multi"×0)',
                                                                    'Put("hset"×5)',
                                                                    'Put("hset"×3)',
                                                                    'Put("exec"×0)'],
                     'syncer/output.go:RedisOutput.sendRdb': ['setCheckpoint()'],
                     'syncer/output.go:RedisOutput.setCheckpoint': ['SetCheckpoint()'],
                     'syncer/replica.go:ReplicaFollower.aofSync': ['SetRunId()'],
                     'syncer/replica.go:ReplicaFollower.preSync': ['SetRunId()', 'SetRunId()'],
                     'syncer/replica.go:ReplicaFollower.rdbSync': ['SetRunId()'],
                     'syncer/syncer.go:deleteBisyncKeysInChunks': ['Do("del"×…)', 'flush()', 'flush()'],
                     'syncer/syncer.go:syncer.cleanupBisyncNamespace': ['deleteBisyncKeysInChunks()',
                                                                        'DeleteBisyncCommitKeys()',
                                                                        'deleteBisyncKeysInChunks()',
                                                                        'deleteBisyncKeysInChunks()'],
                     'syncer/syncer.go:syncer.resolveBisyncCheckpointNameWithClient': ['ResolveOrCreateBisyncCheckpointName()',
                                                                                       'SaveBisyncNamespaceMode()',
                                                                                       'SaveBisyncNamespaceMode()',
                                                                                       'SaveBisyncNamespaceMode()',
                                                                                       'SaveBisyncNamespaceMode()',
                                                                                       'seedBisyncNamespace()',
                                                                                       'SetCheckpointHash()',
                                                                                       'DelCheckpointHash()',
                                                                                       'cleanupBisyncNamespace()'],
                     'syncer/syncer.go:syncer.seedBisyncNamespace': ['SetCheckpoint()',
                                                                     'SaveBisyncFrontierSnapshot()',
                                                                     'Do("hset"×…)',
                                                                     'SaveBisyncNamespaceMode()'],
                     'syncer/syncer.go:syncer.updateCheckpoint': ['UpdateCheckpoint()']},
 'c13_aof_dispatch': ['if ro.bisyncEnabled() { return ro.sendAofBisync(ctx, runId, reader, offset, nsize) }', 'guard-before-plain-path'],
 'c13_cphash_writes': ['pkg/redis/checkpoint/checkpoint.go:ResolveOrCreateBisyncCheckpointName:"hsetnx" name=candidate',
                       'pkg/redis/checkpoint/checkpoint.go:SetCheckpointHash:HSet name=cpName',
                       'pkg/redis/checkpoint/checkpoint.go:UpdateCheckpoint:SetCheckpointHash name=localCheckpoint',
                       'syncer/syncer.go:resolveBisyncCheckpointNameWithClient:SetCheckpointHash name=newCheckpointName'],
 'c13_first_put': {'dispatchBisyncUnit': '"set" []byte(checkpoint.BisyncMarkerKey(checkpointName, unit.SlotTag))',
                   'execBisyncRdbUnit': '"set" []byte(checkpoint.BisyncMarkerKey(checkpointName, unit.SlotTag))'},
 'c13_localcheckpoint': ['newOutput:localCheckpoint, err = s.resolveBisyncCheckpointName(wait, []string{id1, id2}, outputCfg.ReplayMode)',
                         'newOutput:localCheckpoint = choseKeyInSlots(config.CheckpointKey, s.cfg.Output.GetAllSlots())',
                         'newOutput:localCheckpoint = config.CheckpointKey'],
 'c13_multi_put_sites': ['pkg/redis/client/cluster/txn_batcher.go:sendOnce:conn.send("exec")',
                         'pkg/redis/client/cluster/txn_batcher.go:sendOnce:conn.send("multi")',
                         'pkg/redis/client/conn/redis_conn.go:Dispatch:tb.conn.send("exec")',
                         'pkg/redis/client/conn/redis_conn.go:Dispatch:tb.conn.send("multi")',
                         'syncer/output.go:sendCmdsBatch:batcher.Put("exec")',
                         'syncer/output.go:sendCmdsBatch:batcher.Put("exec")',
                         'syncer/output.go:sendCmdsBatch:batcher.Put("multi")',
                         'syncer/output.go:sendCmdsBatch:batcher.Put("multi")'],
 'c13_target_writes': {'DelCheckpoint': [],
                       'DelCheckpointHash': ['redis.HDel(cli, config.CheckpointKeyHashKey, runId)'],
                       'DelStaleCheckpoint': ['cli.Do("hdel", fields...)'],
                       'DeleteBisyncCommitKeys': ['batcher.Put("del", key)', 'flush()', 'flush()'],
                       'ResetStartPoint': ['ro.purgeBisyncRecoveryState(cli, ro.cfg.CheckpointName, slots, ids)',
                                           'checkpoint.DeleteBisyncCommitKeys(cli, latest)'],
                       'ResolveOrCreateBisyncCheckpointName': ['cli.Do("hsetnx", config.CheckpointKeyHashKey, runIds[0], candidate)'],
                       'SaveBisyncFrontierSnapshot': ['cli.Do("hset", args...)'],
                       'SaveBisyncNamespaceMode': ['cli.Do("hset", checkpointName, bisyncNamespaceFieldMode, string(mode), bisyncNamespaceFieldMTime, '
                                                   'strconv.FormatInt(time.Now().UnixNano(), 10), )'],
                       'SetCheckpoint': ['cli.Do("hset", kvs...)'],
                       'SetCheckpointHash': ['redis.HSet(cli, config.CheckpointKeyHashKey, runId, cpName)'],
                       'SetRunId': ['checkpoint.UpdateCheckpoint(cli, ro.cfg.CheckpointName, []string{pending, ro.cfg.RunId})',
                                    'checkpoint.UpdateCheckpoint(cli, ro.cfg.CheckpointName, []string{id, ro.cfg.RunId})'],
                       'UpdateCheckpoint': ['SetCheckpoint(outCli, cpKv)',
                                            'SetCheckpointHash(outCli, id1, localCheckpoint)',
                                            'DelCheckpoint(outCli, cpName, oldId)',
                                            'DelCheckpointHash(outCli, oldId)'],
                       'bisyncStartPoint': ['ro.purgeBisyncRecoveryState(cli, checkpointName, slots, runIDs)',
                                            'ro.cleanupRecoveredBisyncCommitRecords(cli, checkpointName, frontier, records)'],
                       'cleanupBisyncNamespace': ['deleteBisyncKeysInChunks(cli, commitKeys, 256)',
                                                  'checkpoint.DeleteBisyncCommitKeys(cli, markerKeys)',
                                                  'deleteBisyncKeysInChunks(cli, slotKeys, 256)',
                                                  'deleteBisyncKeysInChunks(cli, rootKeys, 256)'],
                       'cleanupRecoveredBisyncCommitRecords': ['checkpoint.SaveBisyncFrontierSnapshot(cli, checkpoint.BisyncFrontierKey(checkpointName), '
                                                               'frontier)',
                                                               'checkpoint.DeleteBisyncCommitKeys(cli, keys)',
                                                               'batcher.Put("zrem", args...)'],
                       'deleteBisyncKeysInChunks': ['cli.Do("del", args...)', 'flush()', 'flush()'],
                       'dispatchBisyncUnit': ['batcher.Put("set", []byte(checkpoint.BisyncMarkerKey(checkpointName, unit.SlotTag)), []byte(markerValue), '
                                              '[]byte("px"), []byte(strconv.FormatInt(checkpoint.BisyncMarkerTTL.Milliseconds(), 10)))',
                                              'batcher.Put(cmd.Cmd, bisyncArgsToInterfaces(cmd.Args)...)',
                                              'batcher.Put("hset", args...)',
                                              'batcher.Put("zadd", []byte(checkpoint.BisyncCommitIndexKey(checkpointName, unit.SlotTag)), '
                                              '[]byte(strconv.FormatInt(unit.Seq, 10)), []byte(record.Key))'],
                       'execBisyncRdbUnit': ['batcher.Put("set", []byte(checkpoint.BisyncMarkerKey(checkpointName, unit.SlotTag)), []byte(markerValue), '
                                             '[]byte("px"), []byte(strconv.FormatInt(checkpoint.BisyncMarkerTTL.Milliseconds(), 10)), )',
                                             'batcher.Put(cmd.Cmd, bisyncArgsToInterfaces(cmd.Args)...)'],
                       'flush': ['checkpoint.SaveBisyncFrontierSnapshot(fc.conn, fc.key, &fc.frontier)',
                                 'checkpoint.DeleteBisyncCommitKeys(fc.conn, keys)',
                                 'batcher.Put("zrem", args...)'],
                       'purgeBisyncRecoveryState': ['checkpoint.DeleteBisyncCommitKeys(cli, keys)',
                                                    'batcher.Put("zrem", args...)',
                                                    'cli.Do("del", checkpoint.BisyncFrontierKey(checkpointName))'],
                       'resolveBisyncCheckpointNameWithClient': ['checkpoint.ResolveOrCreateBisyncCheckpointName(cli, ids)',
                                                                 'checkpoint.SaveBisyncNamespaceMode(cli, cpName, desiredMode)',
                                                                 'checkpoint.SaveBisyncNamespaceMode(cli, cpName, currentMode)',
                                                                 'checkpoint.SaveBisyncNamespaceMode(cli, cpName, desiredMode)',
                                                                 'checkpoint.SaveBisyncNamespaceMode(cli, cpName, desiredMode)',
                                                                 's.seedBisyncNamespace(cli, newCheckpointName, desiredMode, seed)',
                                                                 'checkpoint.SetCheckpointHash(cli, ids[0], newCheckpointName)',
                                                                 'checkpoint.DelCheckpointHash(cli, cpRunID)',
                                                                 's.cleanupBisyncNamespace(cli, cpName, currentMode, recoverySlots)'],
                       'seedBisyncNamespace': ['checkpoint.SetCheckpoint(cli, &checkpoint.CheckpointInfo{ Key: checkpointName, RunId: seed.RunID, Offset: '
                                               'seed.Offset, Version: config.Version, })',
                                               'checkpoint.SaveBisyncFrontierSnapshot(cli, checkpoint.BisyncFrontierKey(checkpointName), '
                                               'seed.FrontierSnapshot())',
                                               'cli.Do("hset", args...)',
                                               'checkpoint.SaveBisyncNamespaceMode(cli, checkpointName, mode)'],
                       'setCheckpoint': ['checkpoint.SetCheckpoint(cli, checkpointKv)']},
 'c13_txn_batcher_sites': ['syncer/bisync.go:newBisyncTxnBatcher:conn.NewTxnBatcher()']}

PROP = {
    "lean_modules": ["GunYu.Props.C13", "GunYu.Props.C13Names", "GunYu.Props.C13Drain", "GunYu.Props.C13Gen", "GunYu.Props.C13Snap", "GunYu.Props.C13Db", "GunYu.Props.C13Cluster"],
    "audit_namespaces": ["GunYu.Props.C13"],
    "required_theorems": [
        "GunYu.Props.C13.mirrored_recognised",
        "GunYu.Props.C13.bookkeeping_skipped",
        "GunYu.Props.C13.foreign_never_suppressed",
        "GunYu.Props.C13.foreign_emitted_standalone",
        "GunYu.Props.C13.exactly_once_and_quiesce",
        "GunYu.Props.C13.default_filter_ok",
        "GunYu.Props.C13.emitted_content",
        "GunYu.Props.C13.drain_bound",
        "GunYu.Props.C13.drain_reaches",
        "GunYu.Props.C13.bookclean_derived",
        "GunYu.Props.C13.no_loop_always",
        "GunYu.Props.C13.no_loop_no_false_suppression",
        "GunYu.Props.C13.exactly_once_needs_exact_restarts",
        "GunYu.Props.C13.drain_reaches_global",
        "GunYu.Props.C13.D31_counterexample",
        "GunYu.Props.C13.generated_names_valid",
        "GunYu.Props.C13.resolved_names_generated",
        "GunYu.Props.C13.tool_writers_in_vocabulary",
        "GunYu.Props.C13.no_loop_generated_names",
        "GunYu.Props.C13.no_loop_resolved_names",
        "GunYu.Props.C13.reserved_traffic_quiet",
        "GunYu.Props.C13.cleanup_marker_in_shared_del_echoes",
        "GunYu.Props.C13.drain_work_bound",
        "GunYu.Props.C13.every_fair_schedule_drains",
        "GunYu.Props.C13.enough_steps_drain",
        "GunYu.Props.C13.every_fair_schedule_drains_global",
        "GunYu.Props.C13.gen_isBisyncMarkerKey_eq_model",
        "GunYu.Props.C13.gen_isBisyncLatestKey_eq_model",
        "GunYu.Props.C13.gen_isBisyncCommitKey_eq_model",
        "GunYu.Props.C13.gen_isBisyncRdbRecordKey_eq_model",
        "GunYu.Props.C13.gen_isBisyncCommitIndexKey_eq_model",
        "GunYu.Props.C13.gen_isBisyncNamespaceKey_eq_model",
        "GunYu.Props.C13.gen_touchesBisyncNamespace_eq_model",
        "GunYu.Props.C13.gen_isBisyncControlCommand_eq_model",
        "GunYu.Props.C13.gen_isBisyncMarkerCommand_eq_model",
        "GunYu.Props.C13.gen_isBisyncMarkerExpiryCommand_eq_model",
        "GunYu.Props.C13.gen_isBisyncMirroredTransaction_eq_model",
        "GunYu.Props.C13.snapshot_target_outside_namespace",
        "GunYu.Props.C13.snapshot_event_ok",
        "GunYu.Props.C13.old_snapshot_filter_admits_reserved_target",
        "GunYu.Props.C13.select_transparent",
        "GunYu.Props.C13.mirrored_recognised_behind_select",
        "GunYu.Props.C13.select_blacklisted_bypasses",
        "GunYu.Props.C13.bypassed_block_dropped",
        "GunYu.Props.C13.cluster_commit_single_node_and_recognised",
    ],
    "gens": ["c18", "c10", "gofn_bisynckeypreds", "gofn_bisyncpreds"],
    "expected_facts": {
        "c13_slotmode_body": SLOTMODE_BODY,
        # dimension audit: process-global / long-lived state reached from C13's code (package-level vars, fields of the output filter)
        "c13_package_state": {
            "pkg/filter/filter.go": ["field RedisKeyFilter.cmdBlackTrie", "field RedisKeyFilter.cmdWhiteTrie", "field RedisKeyFilter.dbBlackList",
                                     "field RedisKeyFilter.prefixKeyBlackTrie", "field RedisKeyFilter.prefixKeyWhiteTrie", "field RedisKeyFilter.slotKeyBlackList",
                                     "field RedisKeyFilter.slotKeyWhiteList", "var NoRouteCmds"],
            "pkg/redis/checkpoint/bisync.go": ["var ErrBisyncJournalGap", "var bisyncSlotTagCache", "var bisyncSlotTagsBySlot", "var bisyncSlotTagsOnce"],
            "syncer/bisync.go": ["var bisyncCommitBacklogGauge", "var bisyncCommitGCCounter", "var bisyncFrontierOffsetGauge", "var bisyncFrontierRebuildGauge",
                                 "var bisyncFrontierSeqGauge", "var bisyncPendingCompactOptions", "var bisyncSingleSlotFailCounter", "var bisyncTxnCommitCounter",
                                 "var bisyncTxnSuppressCounter", "var bisyncUnitBuildCounter"],
            "syncer/bisync_rdb.go": [],
        },
        "c13_rdb_filter_plain": ["ro.outFilter.FilterKey(util.BytesToString(e.Key)) || ro.outFilter.FilterSlot(util.BytesToString(e.Key)) || "
                                 "ro.bisyncNsFilter.FilterKey(util.BytesToString(e.Key)) || ro.bisyncRdbTargetReserved(e.Key)"],
        "c13_rdb_filter": {
            "bisyncRdbTargetKey": "{ if len(key) == 0 { return nil } if !ro.cfg.ReplaceHashTag { return key } targetKey := append([]byte(nil), key...) if ro.cfg.ReplaceHashTag { targetKey = bytes.Replace(targetKey, []byte(\"{\"), []byte(\"\"), 1) targetKey = bytes.Replace(targetKey, []byte(\"}\"), []byte(\"\"), 1) } return targetKey }",
            "bisyncRdbTargetReserved": "{ if !ro.cfg.ReplaceHashTag { return false } target := string(ro.bisyncRdbTargetKey(key)) return isBisyncNamespaceKey(target) || strings.HasPrefix(target, config.NamespacePrefixKey) }",
            "rdbReplayBisync_if": ["ro.outFilter.FilterKey(string(e.Key)) || ro.outFilter.FilterSlot(string(e.Key)) || isBisyncNamespaceKey(string(e.Key)) || ro.bisyncRdbTargetReserved(e.Key)"],
        },
        "bisync_cpname_body": ('{ buf := make([]byte, 12) if _, err := rand.Read(buf); err != nil { return "", err } '
                               'return fmt.Sprintf("%s:%x", BisyncCheckpointKeyPrefix, buf), nil }'),
        **C13_WRITER_FACTS,
    },
    "harness": [{"name": "C13", "pkg": "./syncer/", "test": "TestVerifC13"}],
    "driver": "drv_C13",
    "rule": "(1) namespace predicates (5 Is…Key, isBisyncNamespaceKey, touchesBisyncNamespace, isBisyncMarkerCommand) on keys assembled from the reserved "
            "prefixes/infixes and near misses, in 7 command shapes; (2) the harness-side site double (propagation rewrites) diffed against the Lean "
            "`propagate` on scripts of client commands / MULTI blocks / clock advances / expiry visits under all 8 Redis propagation configs; "
            "(3) the real parseAofReplayUnits on generated streams: client commands (24 shapes, typed key pools, values that are byte-identical "
            "copies of marker values / control keys, keys one byte off the reserved prefixes), MULTI blocks (also unterminated, nested, stray EXEC), "
            "mirrored transactions incl. DEL/UNLINK marker ahead of the marker SET, all stand-alone bookkeeping forms, PING/SELECT (valid, negative, "
            "malformed)/PUBLISH/NoRoute commands, unknown commands with 4 COMMAND GETKEYS behaviours, cluster and standalone mode, optional extra "
            "prefix/db blacklists; (4) closed-loop histories: two site doubles, both links = real parser over the encoded stream + real "
            "execBisyncUnit (sync and journal mode, real frontier coordinator onCommitted/flush) / execBisyncRdbUnit / checkpoint-hash and "
            "namespace-mode writes through a real RedisConn into the shared target double whose request log is executed at the destination site; "
            "10-70 events per history (client commands and transactions at both sites incl. transactions of 9-40 and 65-200 commands, clients poking the reserved namespace, ticks incl. >24 h, "
            "expiry visits incl. marker keys, link steps, restarts of either link (rewind to the last committed unit, also once in the drain; in 1/3 of the histories connection cuts inside the real loops and resume points from the real StartPoint, fresh or same process), snapshot units, bookkeeping), then a drain. Monitors: nothing the tool wrote comes back "
            "as a unit or halts the opposite link; every vouched client/expiry block comes out; each applied exactly once; units committed during "
            "the drain <= pending client blocks; commit = one MULTI of marker + business + record(+index); every stand-alone request the tool "
            "issues has a form in the model. (5) checkpoint names: 200 calls of the real NewBisyncCheckpointName vs the Lean newCpName (the random bytes read back from "
            "the name), and 60 sequences of 1-5 starts against one target double through the real resolveBisyncCheckpointNameWithClient (namespace created / read back / "
            "recovery format switched, new run id with the old one second), config.CheckpointKey and choseKeyInSlots names, each followed by the real UpdateCheckpoint: the "
            "names and the checkpoint hash afterwards vs the Lean runStarts. (6) recovery-format switch inside the closed loop (1/3 of the histories without cuts end with "
            "it, in half of them a day after the link's last commit; corpus lines 'Q<S>'): the real resolveBisyncCheckpointNameWithClient on the link's target double - seed of "
            "the new namespace, hash repoint, cleanupBisyncNamespace of the old one - every request executed at the destination site and met by the opposite link's real parser "
            "(found D38); the other half of those epilogues is a FULLRESYNC on one link while the other runs (corpus 'F<S>'): the real RedisOutput.ResetStartPoint (DelCheckpoint per id, "
            "purgeBisyncRecoveryState, DEL <latest> per slot). (7) the tool's high-availability traffic on its INPUT Redis (registry SET … EX / DEL, election script effects SET EX / EXPIRE / "
            "DEL on /redis-gunyu/… keys, 2 % of the events, corpus 'H<S>:<cmd>'), keys with an expiry, lazy expiry ahead of the SET inside MULTI: nothing of it may come out as a unit. "
            "The names op carries INPUTS only (ids, random bytes, desired recovery family): whether a start switches the format and what UpdateCheckpoint relabels / drops is computed by the "
            "model (runFull). distinct_nontrivial is not used (histories are compared whole). "
            "SESSION 5 DIMENSION AUDIT: (16) generated closed-loop histories with USER FILTERS on both links (rerun 'histflt <sub> <n> <dbs>'; 40 quick / 1200 thorough): key prefix black list tmp:, "
            "command black list lpush, slot black list of one key's slot, in half of them also databases with db 3 black-listed on link B; a third of the events are client writes that meet the filters "
            "(multi-key DEL / UNLINK / MSET over user:N / tmp:N, LPUSH, single and in transactions); all monitors of the loop apply with 'what must come out' = the projection of the block by the "
            "filter computed in the harness; no Lean world op. (17) forced cases (rerun dims): the empty key / empty value / empty hash tag / empty transaction, commands whose first argument is "
            "not a key (BITOP, EVAL, XGROUP, ZUNIONSTORE), keys that contain the control-key shape of another namespace, standalone and cluster parser; client transactions of 1 / 64 / 65 / 1000 "
            "commands through the whole closed loop (mirror with the lazy expiry included) in all three modes with BatchCmdCount 1 / 8 / 64, both links under the SAME checkpoint name; "
            "(18) the hash-tag probe under every keyExists policy (replace / ignore / error / default) and with replaceHashTag off as well as on. cfg_* counters per option value in the evidence. "
            "OBSERVATIONS (counted, not judged): a client transaction led by a SET of a marker-shaped key of ANOTHER namespace is passed over whole (the namespace is reserved whatever the name); "
            "after a restart the parser does not know the database, so blocks of a black-listed database are forwarded until the next SELECT (C10's subject). (15) links with a PARTIAL key filter (prefixKeyBlacklist tmp:; rerun 'partialfilter <sub>'; round-8 seeded mutation): 2 fixed + 25 quick / 600 thorough generated streams of DEL / "
            "UNLINK / MSET with some filtered keys, single and inside client transactions: (a) the real parser with ALL units held until it has finished (what a slow sender has not taken yet), "
            "(b) the real sync and pipeline send loops into the target double - the units / the business commands executed at the other site are exactly the client blocks projected by the "
            "filter, each once (monitor on the implementation; aliasing of a projected argument list between units shows as unit-content-differs). (14) closed loop with a CLUSTER pair through the real cluster-mode loops in both directions (rerun clusterloop): see partial; (12) histories with databases in the closed loop (rerun 'histdb'): see partial; (13) the hash-tag probe in plain mode (rerun hashtagplain; found D41): real rdb.Loader + "
            "rdbReplay, replaceHashTag on, keyExists replace / ignore x RESTORE on / off, a stored position at the target: every reserved key is afterwards what it was. (8) the recognition predicates are REGENERATED: isBisyncNamespaceKey / touchesBisyncNamespace / isBisyncControlCommand / isBisyncMarkerCommand / "
            "isBisyncMarkerExpiryCommand / isBisyncMirroredTransaction (syncer/bisync.go) and the five checkpoint.IsBisync…Key predicates are translated Go->Lean on every run "
            "(generators gofn_bisyncpreds, gofn_bisynckeypreds: Gen/FnBisyncPreds.lean, Gen/FnBisyncKeyPreds.lean) and proved equal to the hand model for all inputs "
            "(Props/C13Gen.lean gen_*_eq_model; ASCII command names, list lengths < 2^63-1); their printed-body facts were dropped. (9) near misses of a mirrored transaction "
            "(13 shapes x 2 slot tags: DEL/UNLINK naming the marker AND another key, the marker twice in one DEL, DEL of a non-marker control key, SET marker without value, SETEX / "
            "GETSET / PEXPIREAT of the marker, marker key in another letter case, infix without prefix, a key write ahead of the marker SET or between expiry and SET, expiries only) "
            "through the real parser with a monitor on the implementation alone: one unit holding all commands, or the builder's refusal (replay.rerun = nearmiss); the same shapes are "
            "mixed into the parse ops (counter parse_mirror_near_miss). (10) recognition behind SELECT and under a database blacklist: 8 streams through the real parser (mirrored block "
            "with / without the lazy expiry behind SELECT 3, behind SELECT 2 with db 2 blacklisted, bypass ended by SELECT 0): no unit of tool commands, no stop, client writes outside the "
            "blacklisted database come out. (11) hash-tag probe (replay.rerun = hashtagprobe; found D40): a snapshot with client keys '{redis-gunyu-bisync:}<cp>:latest:{tag}' (hash, "
            "expiry 1 h), '{redis-gunyu-checkpoint}-x', '{u}ser' and another link's control key through the REAL rdb.Loader + rdbReplayBisync with replaceHashTag on, both links' real send "
            "loops, 2 h tick, the real format switch (cleanupBisyncNamespace), 3 Redis configs x 2 replay modes: no reserved key other than a marker carries an expiry at the destination, "
            "nothing under a reserved prefix holds a client value, '{u}ser' arrives as 'user', nothing the clean-up wrote comes back as a unit",
    "trusted": ["`propagate` (Model/BisyncSite.lean): transcription of what a Redis master writes to its replication stream — PX/EX->PXAT, "
                "(P)EXPIRE(AT)->PEXPIREAT, RESTORE ttl->ABSTTL, no-op commands omitted, DEL/UNLINK of a key found expired propagated ahead of the "
                "command that touched it (inside the same MULTI/EXEC), Redis>=7 and older MULTI/EXEC propagation; quantified over the 8 combinations "
                "of RedisCfg; ZADD is always counted as a change",
                "the harness-side site double (same function in Go, diffed against the Lean one) and the shared target double as request recorder",
                "the Go->Lean translator for the eleven regenerated predicates: harness/extract/gofn*.go + gofn_c13.go (strings.HasPrefix / Contains / ToLower-ASCII-or-none / "
                "util.BytesToString) and the prelude lean/GunYu/Basic/GoSem.lean + GoSemStrings.lean; the differential parse ops on the real code stay in place as the independent check"],
    "assumptions": ["default output filter (NoRouteCmds + the two reserved prefixes): the property's quantifier does not range over user filters; a prefix "
                    "whitelist or a slot filter that rejects marker/record keys would break recognition (observation, not a finding)",
                    "client commands the world theorem ranges over (ClientOK): forwardable name (not MULTI/EXEC/SELECT/PING/PUBLISH, not on the command "
                    "blacklist) and no ARGUMENT under a reserved prefix; the block-level theorem foreign_never_suppressed needs this only for keys and the first argument",
                    "FLUSHALL / FLUSHDB / SWAPDB (and the other NoRouteCmds) are withheld by the tool's command filter in EVERY replay mode before the bisync logic sees them "
                    "(FilterCmd in the parser; C10 proves the filter passes exactly the configured set with NoRouteCmds always inserted): they carry no key or value, the "
                    "property's quantifier is over writes with keys and values, and the suppression mechanisms C13 is about (marker test, namespace test) never drop them; a "
                    "FLUSHALL at one site is therefore not mirrored — a documented limitation of the tool, not counted as a C13 violation. PUBLISH is not a write; only the "
                    "sentinel hello is dropped, any other PUBLISH stops the replay with the builder's 'not routable' error (allowed by the property)",
                    "link step = the parser reads one whole block and the unit is committed before the next is read; the real loops pipeline and (parallel mode) reorder "
                    "across lanes — tied by the closed-loop histories running the real loops, not by the model",
                    "command names are ASCII (Go's Unicode case folding outside the model)",
                    "parser and commit order tied by correspondence; key constructors, infix literals, TTL regenerated; the eleven recognition predicates are regenerated Go->Lean and proved equal "
                    "to the model (session 5), under AsciiName (every byte of a command name < 0x80: Go's strings.ToLower takes its Unicode path otherwise, which the translator's prelude "
                    "does not model - the generated function is `none` there) and list lengths < 2^63-1; the translator's reading of strings.HasPrefix / strings.Contains / strings.ToLower "
                    "(ASCII) / util.BytesToString (checked to be the unsafe cast) is lean/GunYu/Basic/GoSemStrings.lean + harness/extract/gofn_c13.go (trusted)",
                    "the checkpoint hash of a target holds names the tool stored (HashGen, the empty hash of a fresh target in particular): clients stay out of redis-gunyu-checkpoint* "
                    "(ClientOK); given that, every name a start reads back is a generated one (resolved_names_generated) - no longer assumed per name",
                    "the inventory of target writers (Proofs/BisyncWriters.lean Writer; ResetStartPoint added after the round-4 review) is complete for the bidirectional path: pinned by the "
                    "source facts c13_all_writers (EVERY function under syncer/, pkg/redis/checkpoint, cmd/, pkg/cluster, pkg/redis that sends a literal non-read command or calls one that does, "
                    "as shapes Do(\"del\"×1) / Helper(): a NEW writer, another command, arity or helper changes the fact), c13_target_writes (full write calls of 23 procedures in source order), c13_txn_batcher_sites (one NewTxnBatcher call site: newBisyncTxnBatcher), c13_multi_put_sites + c13_aof_dispatch (literal MULTI / EXEC "
                    "only on the plain path, not reached with bidirectional sync on), c13_first_put (marker SET first in both unit-commit functions), c13_cphash_writes, c13_localcheckpoint; "
                    "a write call added anywhere else (a new procedure) is seen only by the closed-loop monitor unmodelled-bookkeeping-traffic / bookkeeping-inside-multi when a history runs it"],
    "partial": ["FALSE ALARM repaired (round-4 review, seeds 41 quick / 42 thorough on the unchanged tree: foreign-block-suppressed + a c13 world DIFF): the harness injected a frontier "
                "snapshot with an invented numbering (seq 1 at the read position) into the link's own namespace - not a state the tool produces - and judged a block the real StartPoint "
                "moved past although an earlier life had committed it. Now the injected frontier is the one the process has reported (what flush saves), a block counts as suppressed only if "
                "it was NEVER committed, and a start point ahead of the read position over units of an earlier life is not taken (the model's restart resumes at a block already reached; "
                "counted real_restart_ahead_over_units_of_an_earlier_life_*)",
                "HA registry / election traffic: exercised in the closed loop and proved quiet (reserved_traffic_quiet: any block whose every table-resolved key lies under a withheld "
                "prefix, lazy-expiry MULTI included); it is Ev.toolRaw in the world model, i.e. outside GoodEvents - the world theorems do not range over it, the block-level theorem and the "
                "histories do. checkSyncDelay's SET of the configured probe key on the input Redis is a client-like write by design (forwarded once, mirrored never)",
                "KNOWN FINDING D31 (known_findings.d/C13.json), re-examined in session 4 and NOT repaired: the dispatch half (SELECT <db> behind the marker, SELECT 0 before the record, "
                "inside the unit's MULTI) is small, but the resume side IS affected - a resumed parser starts with currentDB = -1 (counter db_of_unit_parsed_from_resume_offset_-1) and a "
                "partial resynchronisation repeats no SELECT, so the database must travel in the commit record, the frontier snapshot, rebuild, coordinator, namespace seed, start point, fast "
                "path (about 15 sites inside functions C14 and C17 transcribe): a coordinated change of three properties, and the dispatch half alone would be right until the first restart "
                "inside a non-zero database and then silently wrong in two databases. Incremental bisync replay commits every unit in the connection's database (0) whatever database "
                "it was written in; model and theorems have one keyspace per site, i.e. they hold per database only where the client writes are in database 0. The full "
                "statement with databases (applied_in_source_db_stmt: every unit is committed in the database its commands were written in) is stated and REFUTED in Lean "
                "(D31_counterexample, decide-checked: SELECT 3; SET k0 v => one unit, no commit transaction of any kind selects a database)",
                "the world theorems range over client commands with NO argument under a reserved prefix (ClientOK), i.e. a value equal to a control KEY is excluded there "
                "(marker JSON values are admitted); the block-level theorem foreign_never_suppressed covers such values (hypothesis on keys + first argument only)",
                "CLOSED (was: a MULTI block of redis-gunyu-bisync: keys without a marker would not be skipped - can the tool emit one?): YES, it could - D38, found by writing the "
                "inventory of target writers: cleanupBisyncNamespace named the marker (the only control key with an expiry) in one DEL with the latest / index keys; with the marker expired "
                "but not reaped a Redis >= 7 master propagates MULTI, DEL marker, DEL marker latest index, EXEC; reproduced on the real code by the closed loop, repaired in /repo b5f636f, "
                "witness in Lean cleanup_marker_in_shared_del_echoes. For the repaired code tool_writers_in_vocabulary / no_loop_generated_names DERIVE that every request of every modelled "
                "writer is a stand-alone request of the vocabulary (Ev.toolRaw does not occur); what remains assumed is that the inventory is complete (assumptions) and, for the marker's own "
                "DEL, that Redis propagates a single-key DEL on an expired key as the one expiry DEL / UNLINK (propagate, trusted)",
                "CLOSED (was: BookClean assumed per event): bookclean_derived / no_loop_always / no_loop_no_false_suppression range over event lists whose events satisfy EvOK' — "
                "a condition on each event ALONE — from two sites holding ANY data in which no namespace key other than a marker key carries an expiry (NsTtl; empty sites in "
                "particular), and derive BookClean from the invariant (only the first argument of SET/(P)EXPIRE(AT)/RESTORE can gain an expiry: frame lemma over all 12 propagate "
                "families; key-form lemmas). NARROWED, stated exactly: no_loop_generated_names REPLACES the hypothesis lbrace ∉ cp by the stronger GenCp cp "
                "and, for single bookkeeping events, Valid ∧ Issued by the stronger FromTool; what it adds is that a whole run of a writer procedure needs only Writer.Ok (its requests' Valid ∧ Issued "
                "are derived); no_loop_resolved_names then discharges GenCp for names that ANY sequence of starts resolved from a hash of generated names (HashGen: an assumption on the target, "
                "true of a fresh one). Ev.toolRaw stays excluded BY HYPOTHESIS - that the tool never writes outside the vocabulary is the completeness of the inventory (facts), not a theorem. "
                "Writer.Ok assumes that the chunks of a clean-up are latest / index / journal keys of the namespace: the journal chunk is what the target's index ZSETs return "
                "(loadBisyncCommitRecordKeys), i.e. an assumption on target state not derived from dispatchBisyncUnit's ZADD. One name per link: a history old-name ++ switch ++ new-name is an "
                "instance of no theorem and of no run (the link's life ends at the switch / FULLRESYNC). What EvOK' (EvGen) still asks: snapshot commands with their first argument outside the namespace (the snapshot filter withholds reserved keys, C10), bookkeeping requests "
                "other than a marker's expiry (that is Redis's doing: Ev.expire), expiry visits not on redis-gunyu-checkpoint* / /redis-gunyu* keys; client commands with NO argument "
                "under a reserved prefix (ClientOK, stronger than 'no key'); exactly_once_and_quiesce (GoodRun, BookClean assumed, no restarts) is kept unchanged",
                "RESTARTS, stated precisely. Ev.restart src p seq resumes at ANY block p already reached (p <= pos), with the unit numbering the start point gives. "
                "(a) no_loop_always holds for EVERY such restart, also one that resumes BEFORE the last committed unit (pipeline / parallel mode resume at the contiguous frontier, "
                "the same process at its in-memory reported frontier): every commit ever made comes from a client block, every block the tool wrote is passed over however often "
                "it is read, every consumed client block has been committed AT LEAST once with exactly its commands, links stop only on the builder. "
                "(b) 'each once' and quiescence (no_loop_no_false_suppression conjuncts 2', 4') additionally need ExactRestarts: every restart of the run resumes at or behind the "
                "last unit its link committed — what SYNC mode's records give (C14 sync_mode_exact); C14 guarantees only a committed PREFIX for pipeline / parallel, so for those modes "
                "only (a) is claimed. exactly_once_needs_exact_restarts refutes the unconditional statement (exactly_once_any_restart_stmt, written out) on a 4-event history: the "
                "unit is committed twice. The property text says 'absent restarts' for exactly-once, so (b) is more than it asks and (a) is what it asks about loops. "
                "A resume point BEYOND what was read (after an in-process full resynchronisation) is a no-op of the model: no event for a full resync in the middle of a history",
                "where a restarted syncer resumes is taken from the code in part of the histories only: 1/3 of the closed-loop histories inject connection cuts into the real "
                "loops (requests executed, replies lost) and take the resume point from the REAL RedisOutput.StartPoint on the link's target double — fresh process (new RedisOutput: "
                "latest records / frontier snapshot + journal) or same process (in-memory fast path) — including what StartPoint itself writes (frontier save, journal clean-up, "
                "DEL frontier on fall-back to the root: bookkeeping form frontierDel); the other restarts rewind to the harness's own last-committed position. After a restart "
                "that resumed before the last committed unit the harness keeps judging no-loop and at-least-once and stops judging at-most-once (rewound)",
                "foreign_never_suppressed_stmt (hypothesis on keys only) is kept as a def: the code's namespace test looks at the first argument of every "
                "command, so a key-less command whose first argument carries a reserved prefix (PUBLISH redis-gunyu-bisync:…) is skipped; the proved "
                "theorem carries the first-argument hypothesis (fgn_of_keys shows it follows from the keys hypothesis when the first argument is a key)",
                "CLUSTER PAIR in the closed loop (session 5, vf_c13_cluster_test.go, replay.rerun = clusterloop): two clusters of three masters (C18's slot-checking node doubles over "
                "loopback TCP), a site double per master, one syncer per source master running the REAL sendAofBisync in cluster mode (cluster slot mode of the parser, sync / pipeline / parallel "
                "with 2 lanes = lane routing unit.Slot % lanes, real cluster client + transaction batcher) in BOTH directions, two rounds with a day between them (lazy expiry of the marker "
                "ahead of the SET in the second), 20 commits per mode over all three masters: every commit block marker-led, accepted by the owner of the unit's slot, exactly one client "
                "transaction, each exactly once, nothing a syncer wrote comes back, no stop, two further passes commit nothing; a stalled loopback run is counted, not judged. Scripted (10 "
                "transactions per round), not generated; no restarts / cuts / format switch in the cluster pair, and execBisyncRdbGlobalUnit (one global unit fanned out to every primary "
                "under a local slot tag) is still outside any closed loop (its routing is C18's globalCases). The generated histories remain a standalone pair. Cluster mode is also composed FORMALLY with C18 "
                "(cluster_commit_single_node_and_recognised: a client block met by a cluster-mode parser is refused or becomes one unit whose whole commit transaction - business keys, marker, "
                "record, index, under any generated name - hashes to the unit's slot, i.e. runs on one master, and every block that master propagates is passed over by the opposite parser in any "
                "mode), with the parse ops (1/3 in cluster mode) and C18's real cluster loops as the tie; what no history and no theorem covers: lane routing unit.Slot % lanes of the parallel "
                "mode and execBisyncRdbGlobalUnit (one global unit fanned out to every primary under a local slot tag) inside a closed loop; the two links are two syncers (in-A / in-B)",
                "CLOSED (was: replaceHashTag x namespace filter 'read from the code, not reproduced'): DECIDED by a real run - it DID violate the property (D40, repaired /repo f9044ee). "
                "rdbReplayBisync tested the snapshot's key while with replaceHashTag the unit is written under the key with its first brace pair removed: the client key "
                "'{redis-gunyu-bisync:}<cp>:latest:{tag}' with an expiry was written over the link's latest record, and after the next format switch the multi-key DEL of the clean-up met the "
                "expired-unreaped key: MULTI, DEL latest, DEL latest index, EXEC came back as a unit through the opposite link's real parser (hash-tag probe). Now the filter also withholds an "
                "entry whose TARGET key is reserved (bisyncRdbTargetReserved); snapshot_target_outside_namespace / snapshot_event_ok derive EvOK''s snapshot condition from the modelled filter "
                "(rdbTargetKey / rdbKept, Props/C13Snap.lean: transcriptions tied by the probe and the source fact c13_rdb_filter, not regenerated - methods of RedisOutput are outside gofn). "
                "What stays assumed: that the FIRST ARGUMENT of every command of a snapshot unit is that target key (how buildBisyncRdbReplayUnit expands a value is C20 / C18). NOT repaired, "
                "not C13's statement but reproduced from C13's harness and REPAIRED too (D41, /repo e867911): the plain snapshot path had the same hole - '{redis-gunyu-checkpoint}' was replayed by "
                "rdbrestore as the checkpoint key itself, the stored position gone (probe vfc13HashTagPlainProbe: real rdb.Loader + rdbReplay, keyExists replace / ignore x RESTORE on / off, "
                "replay.rerun = hashtagplain; fact c13_rdb_filter_plain); rdbKept with uf := the three source-key filters is the model of both loops",
                "snapshot phase: snapshot units (1-150 commands, the >64 ones counted) are sent by the real execBisyncRdbUnit and enter the closed loop as the block the "
                "target received (monitors: one MULTI, marker first, no block without marker); how buildBisyncRdbReplayUnit expands a value into commands is C20 / C18",
                "CLOSED (was: drain_reaches is an existence statement): every_fair_schedule_drains(_global) - along ANY infinite schedule of link steps in which each link steps again and "
                "again, from some index on every prefix leaves both links settled and nothing moves any more; drain_work_bound / enough_steps_drain give the exact count (link s needs "
                "needOf w s of ITS OWN steps, the other link's steps neither help nor hurt). Still: a link step is one whole block committed atomically (the real loops pipeline; tied by the "
                "closed-loop drain monitor, not by the model), and the schedule consists of link steps only (clients that never stop writing never let the exchange quiesce - as the property says)",
                "databases: RECOGNITION is now proved (Props/C13Db.lean: select_transparent, mirrored_recognised_behind_select, select_blacklisted_bypasses, bypassed_block_dropped - a SELECT "
                "of a database n >= 0 is consumed, behind a non-blacklisted one the parser is idle and every block of a commit is passed over, behind a blacklisted one EVERY block is dropped "
                "without unit or stop) and monitored on the real parser (8 streams); the CLOSED LOOP now has databases (40 quick / 1200 thorough extra histories 'histdb <sub> <n>': clients of either site go on in database 0 / 1 / 3, the site doubles write "
                "SELECT blocks ahead of the first write in another database - also ahead of the tool's commits, which arrive in the database the target connection had -, restarts resume behind a "
                "SELECT; all monitors of the loop apply and the exactly-once monitor also asks WHERE a unit was committed: D31 is measured there, ~170 units per quick run, every one of the known "
                "shape 'src_db!=0 committed in dst_db=0', any other pairing a new violation) beside the side probe. The site double keeps ONE keyspace (its databases alias; what is judged is the "
                "database of a commit, not key states) and these histories carry NO Lean world op: the Lean World still has one keyspace per site, i.e. the world theorems hold per database only "
                "where the client writes are in database 0 - several keyspaces in Model/BisyncSite.lean (a shared model under 1500 lines of invariant proofs) were not done",
                "monitors named tie-shape:* (commit-shape: marker + business + exactly one record (+index) in that order; unmodelled-bookkeeping-traffic: a stand-alone "
                "request with no form in the Lean Bookkeeping vocabulary) and the expected_facts text pins ask for more than the property (the property needs 'marker first, "
                "one MULTI' and 'skipped by the opposite parser'); they guard the model's correspondence and are labelled as such",
                "./check C13 --replay FILE re-runs the one history / corpus script / database probe the file names (replay.rerun); parse-op and propagation-double "
                "differences are model diffs whose op line is the input"],
}

MANIFEST = {
    "text": "Lean theorems: (mirrored_recognised) for every unit, commit mode, store, clock and Redis propagation variant, every block the commit "
            "leaves in the site's stream — including DEL/UNLINK of the lazily expired marker ahead of the marker SET — is passed over by the opposite "
            "link; (bookkeeping_skipped) every stand-alone bookkeeping request is skipped; (foreign_never_suppressed) a block of forwardable commands "
            "outside the reserved namespace, whatever values it carries, comes out as exactly one unit with exactly its commands or stops the replay; "
            "(exactly_once_and_quiesce) for all interleavings of client writes, ticks, expiries, link steps, snapshot units and bookkeeping at two "
            "sites, each link's commits are exactly the consumed client blocks, once each, and after the last client block further link steps change "
            "nothing; (no_loop_always) for ANY list of events each satisfying a condition on the event alone, from sites holding any data, with restarts of either syncer "
            "that resume at ANY block already reached (also before the last committed unit): no unit is ever built from what the tool wrote, every consumed client block is "
            "committed at least once with its commands, BookClean derived (bookclean_derived) instead of assumed; (no_loop_no_false_suppression) exactly once and quiescence when "
            "every restart resumes at or behind the last committed unit (sync mode) — the unconditional statement is written out and refuted (exactly_once_needs_exact_restarts); "
            "(D31_counterexample) the statement with databases is refuted: the one known exception; (generated_names_valid, resolved_names_generated) checkpoint names are brace-free "
            "and under the reserved prefix because of how the tool makes and stores them, a name read back from the checkpoint hash included; (tool_writers_in_vocabulary, "
            "no_loop_generated_names) every request of every modelled target writer is a stand-alone bookkeeping request that the opposite link passes over, so the no-loop theorem "
            "holds over generated names (GenCp, discharged by no_loop_resolved_names for names that starts resolve) and whole writer procedures; (reserved_traffic_quiet) the tool's registry / "
            "election traffic under /redis-gunyu is never forwarded; (cleanup_marker_in_shared_del_echoes) the one writer request that was not - repaired D38. Session 5: (every_fair_schedule_drains, _global; drain_work_bound, enough_steps_drain) the exchange quiesces along EVERY infinite schedule of link steps "
            "in which each link keeps stepping, after exactly needOf w s own steps per link; (gen_*_eq_model, 11 theorems) the recognition predicates REGENERATED from the Go source equal the model; "
            "(snapshot_target_outside_namespace, snapshot_event_ok, old_snapshot_filter_admits_reserved_target) the key a kept snapshot entry is written under - replaceHashTag included - lies "
            "outside the namespace, which the filter before the repair of D40 did not give; (select_transparent, mirrored_recognised_behind_select, select_blacklisted_bypasses, "
            "bypassed_block_dropped) recognition behind SELECT and under a database blacklist; (cluster_commit_single_node_and_recognised) cluster mode composed with C18: one unit, one slot, "
            "one master, recognised there. Tied to the code by regeneration of the predicates, differential correspondence of the parser and the propagation double, whole closed-loop "
            "histories through the real parser/commit code, and probes through the real snapshot replay.",
    "note": "trusted: Lean kernel, the `propagate` transcription of Redis's propagation rewrites, extractor, harness doubles; the global theorems assume "
            "nothing about states (event-local conditions only); exactly-once under restarts is claimed for exact (sync-mode) restarts only; databases are the known exception (D31)",
    "technique": "Lean 4 proof (parser lemmas over filtered block bodies, shape lemma for propagate, two-site invariant by induction over event lists) + "
                 "differential correspondence + closed-loop monitors",
}
