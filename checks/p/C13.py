SYNCER_PREDICATES = {
    "bisyncSlotMode": "{ if ro.cfg.Redis.IsCluster() { return bisyncSlotMode{} } slot := uint16(0) return bisyncSlotMode{ forceSlot: &slot, allowCrossSlot: true, } }",
    "isBisyncControlCommand": "{ return touchesBisyncNamespace(cmd) }",
    "isBisyncMarkerCommand": "{ if strings.ToLower(cmd.Cmd) != \"set\" || len(cmd.Args) < 2 { return false } key := util.BytesToString(cmd.Args[0]) return checkpoint.IsBisyncMarkerKey(key) }",
    "isBisyncMarkerExpiryCommand": "{ switch strings.ToLower(cmd.Cmd) { case \"del\", \"unlink\": return len(cmd.Args) == 1 && checkpoint.IsBisyncMarkerKey(util.BytesToString(cmd.Args[0])) } return false }",
    "isBisyncMirroredTransaction": "{ for _, cmd := range cmds { if isBisyncMarkerExpiryCommand(cmd) { continue } return isBisyncMarkerCommand(cmd) } return false }",
    "isBisyncNamespaceKey": "{ return strings.HasPrefix(key, checkpoint.BisyncKeyPrefix+\":\") || strings.HasPrefix(key, config.CheckpointKey) }",
    "touchesBisyncNamespace": "{ if len(cmd.Args) == 0 { return false } switch strings.ToLower(cmd.Cmd) { case \"del\", \"unlink\": for _, arg := range cmd.Args { if isBisyncNamespaceKey(string(arg)) { return true } } return false default: return isBisyncNamespaceKey(string(cmd.Args[0])) } }",
}

KEY_PREDICATES = {
    "IsBisyncCommitIndexKey": "{ return strings.HasPrefix(key, BisyncKeyPrefix+\":\") && strings.Contains(key, \":index:{\") }",
    "IsBisyncCommitKey": "{ return strings.HasPrefix(key, BisyncKeyPrefix+\":\") && strings.Contains(key, \":commit:{\") }",
    "IsBisyncLatestKey": "{ return strings.HasPrefix(key, BisyncKeyPrefix+\":\") && strings.Contains(key, \":latest:{\") }",
    "IsBisyncMarkerKey": "{ return strings.HasPrefix(key, BisyncKeyPrefix+\":\") && strings.Contains(key, \":marker:{\") }",
    "IsBisyncRdbRecordKey": "{ return strings.HasPrefix(key, BisyncKeyPrefix+\":\") && strings.Contains(key, \":rdb:{\") }",
}

PROP = {
    "lean_modules": ["GunYu.Props.C13"],
    "audit_namespaces": ["GunYu.Props.C13"],
    "required_theorems": [
        "GunYu.Props.C13.mirrored_recognised",
        "GunYu.Props.C13.bookkeeping_skipped",
        "GunYu.Props.C13.foreign_never_suppressed",
        "GunYu.Props.C13.foreign_emitted_standalone",
        "GunYu.Props.C13.exactly_once_and_quiesce",
        "GunYu.Props.C13.default_filter_ok",
        "GunYu.Props.C13.emitted_content",
        "GunYu.Props.C13.drain_bound",
        "GunYu.Props.C13.drain_reaches",
        "GunYu.Props.C13.bookclean_derived",
        "GunYu.Props.C13.no_loop_always",
        "GunYu.Props.C13.no_loop_no_false_suppression",
        "GunYu.Props.C13.exactly_once_needs_exact_restarts",
        "GunYu.Props.C13.drain_reaches_global",
        "GunYu.Props.C13.D31_counterexample",
    ],
    "gens": ["c18", "c10"],
    "expected_facts": {
        "bisync_syncer_predicates": SYNCER_PREDICATES,
        "bisync_key_predicates": KEY_PREDICATES,
    },
    "harness": [{"name": "C13", "pkg": "./syncer/", "test": "TestVerifC13"}],
    "driver": "drv_C13",
    "rule": "(1) namespace predicates (5 Is…Key, isBisyncNamespaceKey, touchesBisyncNamespace, isBisyncMarkerCommand) on keys assembled from the reserved "
            "prefixes/infixes and near misses, in 7 command shapes; (2) the harness-side site double (propagation rewrites) diffed against the Lean "
            "`propagate` on scripts of client commands / MULTI blocks / clock advances / expiry visits under all 8 Redis propagation configs; "
            "(3) the real parseAofReplayUnits on generated streams: client commands (24 shapes, typed key pools, values that are byte-identical "
            "copies of marker values / control keys, keys one byte off the reserved prefixes), MULTI blocks (also unterminated, nested, stray EXEC), "
            "mirrored transactions incl. DEL/UNLINK marker ahead of the marker SET, all stand-alone bookkeeping forms, PING/SELECT (valid, negative, "
            "malformed)/PUBLISH/NoRoute commands, unknown commands with 4 COMMAND GETKEYS behaviours, cluster and standalone mode, optional extra "
            "prefix/db blacklists; (4) closed-loop histories: two site doubles, both links = real parser over the encoded stream + real "
            "execBisyncUnit (sync and journal mode, real frontier coordinator onCommitted/flush) / execBisyncRdbUnit / checkpoint-hash and "
            "namespace-mode writes through a real RedisConn into the shared target double whose request log is executed at the destination site; "
            "10-70 events per history (client commands and transactions at both sites incl. transactions of 9-40 and 65-200 commands, clients poking the reserved namespace, ticks incl. >24 h, "
            "expiry visits incl. marker keys, link steps, restarts of either link (rewind to the last committed unit, also once in the drain; in 1/3 of the histories connection cuts inside the real loops and resume points from the real StartPoint, fresh or same process), snapshot units, bookkeeping), then a drain. Monitors: nothing the tool wrote comes back "
            "as a unit or halts the opposite link; every vouched client/expiry block comes out; each applied exactly once; units committed during "
            "the drain <= pending client blocks; commit = one MULTI of marker + business + record(+index); every stand-alone request the tool "
            "issues has a form in the model. distinct_nontrivial is not used (histories are compared whole)",
    "trusted": ["`propagate` (Model/BisyncSite.lean): transcription of what a Redis master writes to its replication stream — PX/EX->PXAT, "
                "(P)EXPIRE(AT)->PEXPIREAT, RESTORE ttl->ABSTTL, no-op commands omitted, DEL/UNLINK of a key found expired propagated ahead of the "
                "command that touched it (inside the same MULTI/EXEC), Redis>=7 and older MULTI/EXEC propagation; quantified over the 8 combinations "
                "of RedisCfg; ZADD is always counted as a change",
                "the harness-side site double (same function in Go, diffed against the Lean one) and the shared target double as request recorder"],
    "assumptions": ["default output filter (NoRouteCmds + the two reserved prefixes): the property's quantifier does not range over user filters; a prefix "
                    "whitelist or a slot filter that rejects marker/record keys would break recognition (observation, not a finding)",
                    "client commands the world theorem ranges over (ClientOK): forwardable name (not MULTI/EXEC/SELECT/PING/PUBLISH, not on the command "
                    "blacklist) and no ARGUMENT under a reserved prefix; the block-level theorem foreign_never_suppressed needs this only for keys and the first argument",
                    "FLUSHALL / FLUSHDB / SWAPDB (and the other NoRouteCmds) are withheld by the tool's command filter in EVERY replay mode before the bisync logic sees them "
                    "(FilterCmd in the parser; C10 proves the filter passes exactly the configured set with NoRouteCmds always inserted): they carry no key or value, the "
                    "property's quantifier is over writes with keys and values, and the suppression mechanisms C13 is about (marker test, namespace test) never drop them; a "
                    "FLUSHALL at one site is therefore not mirrored — a documented limitation of the tool, not counted as a C13 violation. PUBLISH is not a write; only the "
                    "sentinel hello is dropped, any other PUBLISH stops the replay with the builder's 'not routable' error (allowed by the property)",
                    "link step = the parser reads one whole block and the unit is committed before the next is read; the real loops pipeline and (parallel mode) reorder "
                    "across lanes — tied by the closed-loop histories running the real loops, not by the model",
                    "command names are ASCII (Go's Unicode case folding outside the model)",
                    "parser, commit order, predicates tied by correspondence; key constructors, infix literals, TTL regenerated; predicate bodies compared with expectation"],
    "partial": ["KNOWN FINDING D31 (known_findings.d/C13.json): incremental bisync replay commits every unit in the connection's database (0) whatever database "
                "it was written in; model and theorems have one keyspace per site, i.e. they hold per database only where the client writes are in database 0. The full "
                "statement with databases (applied_in_source_db_stmt: every unit is committed in the database its commands were written in) is stated and REFUTED in Lean "
                "(D31_counterexample, decide-checked: SELECT 3; SET k0 v => one unit, no commit transaction of any kind selects a database)",
                "the world theorems range over client commands with NO argument under a reserved prefix (ClientOK), i.e. a value equal to a control KEY is excluded there "
                "(marker JSON values are admitted); the block-level theorem foreign_never_suppressed covers such values (hypothesis on keys + first argument only)",
                "bookkeeping_skipped covers stand-alone requests (how the code issues every one of them: pinned by the bookkeeping-inside-multi monitor); a MULTI block of "
                "redis-gunyu-bisync: keys without a marker would NOT be skipped (model event toolRaw reproduces the echo)",
                "CLOSED (was: BookClean assumed per event): bookclean_derived / no_loop_always / no_loop_no_false_suppression range over event lists whose events satisfy EvOK' — "
                "a condition on each event ALONE — from two sites holding ANY data in which no namespace key other than a marker key carries an expiry (NsTtl; empty sites in "
                "particular), and derive BookClean from the invariant (only the first argument of SET/(P)EXPIRE(AT)/RESTORE can gain an expiry: frame lemma over all 12 propagate "
                "families; key-form lemmas). What EvOK' still asks: checkpoint names brace-free (as NewBisyncCheckpointName makes them; also for the names inside journal/index/latest "
                "bookkeeping requests), snapshot commands with their first argument outside the namespace (the snapshot filter withholds reserved keys, C10), bookkeeping requests "
                "other than a marker's expiry (that is Redis's doing: Ev.expire), expiry visits not on redis-gunyu-checkpoint* / /redis-gunyu* keys; client commands with NO argument "
                "under a reserved prefix (ClientOK, stronger than 'no key'); exactly_once_and_quiesce (GoodRun, BookClean assumed, no restarts) is kept unchanged",
                "RESTARTS, stated precisely. Ev.restart src p seq resumes at ANY block p already reached (p <= pos), with the unit numbering the start point gives. "
                "(a) no_loop_always holds for EVERY such restart, also one that resumes BEFORE the last committed unit (pipeline / parallel mode resume at the contiguous frontier, "
                "the same process at its in-memory reported frontier): every commit ever made comes from a client block, every block the tool wrote is passed over however often "
                "it is read, every consumed client block has been committed AT LEAST once with exactly its commands, links stop only on the builder. "
                "(b) 'each once' and quiescence (no_loop_no_false_suppression conjuncts 2', 4') additionally need ExactRestarts: every restart of the run resumes at or behind the "
                "last unit its link committed — what SYNC mode's records give (C14 sync_mode_exact); C14 guarantees only a committed PREFIX for pipeline / parallel, so for those modes "
                "only (a) is claimed. exactly_once_needs_exact_restarts refutes the unconditional statement (exactly_once_any_restart_stmt, written out) on a 4-event history: the "
                "unit is committed twice. The property text says 'absent restarts' for exactly-once, so (b) is more than it asks and (a) is what it asks about loops. "
                "A resume point BEYOND what was read (after an in-process full resynchronisation) is a no-op of the model: no event for a full resync in the middle of a history",
                "where a restarted syncer resumes is taken from the code in part of the histories only: 1/3 of the closed-loop histories inject connection cuts into the real "
                "loops (requests executed, replies lost) and take the resume point from the REAL RedisOutput.StartPoint on the link's target double — fresh process (new RedisOutput: "
                "latest records / frontier snapshot + journal) or same process (in-memory fast path) — including what StartPoint itself writes (frontier save, journal clean-up, "
                "DEL frontier on fall-back to the root: bookkeeping form frontierDel); the other restarts rewind to the harness's own last-committed position. After a restart "
                "that resumed before the last committed unit the harness keeps judging no-loop and at-least-once and stops judging at-most-once (rewound)",
                "foreign_never_suppressed_stmt (hypothesis on keys only) is kept as a def: the code's namespace test looks at the first argument of every "
                "command, so a key-less command whose first argument carries a reserved prefix (PUBLISH redis-gunyu-bisync:…) is skipped; the proved "
                "theorem carries the first-argument hypothesis (fgn_of_keys shows it follows from the keys hypothesis when the first argument is a key)",
                "the closed-loop world is a STANDALONE pair (vfc13NewWorld builds both outputs with cluster=false): in cluster mode the parser is covered by the parse ops "
                "and the commit shape / routing by C18, but no history runs the real loops against a cluster target (lane routing unit.Slot % lanes, "
                "execBisyncRdbGlobalUnit are outside C13's loop); the two links are two syncers (input names in-A / in-B, run ids runid-A / runid-B)",
                "snapshot phase: snapshot units (1-150 commands, the >64 ones counted) are sent by the real execBisyncRdbUnit and enter the closed loop as the block the "
                "target received (monitors: one MULTI, marker first, no block without marker); how buildBisyncRdbReplayUnit expands a value into commands is C20 / C18",
                "drain_reaches is an existence statement (there IS a finite drain ending Settled, after which link steps are no-ops); that EVERY fair schedule drains "
                "follows in substance from link_step_progress + drain_bound but is not stated as a theorem; a link step is one whole block committed atomically",
                "databases: the closed loop, the model and every theorem have one keyspace; D31 is measured by a side probe (2 streams x 2 links x 3 modes through the real "
                "loops), not by the exactly-once monitor; recognition of a mirrored block behind a SELECT and the db blacklist vs mirrored blocks are examined by parse ops only",
                "monitors named tie-shape:* (commit-shape: marker + business + exactly one record (+index) in that order; unmodelled-bookkeeping-traffic: a stand-alone "
                "request with no form in the Lean Bookkeeping vocabulary) and the expected_facts text pins ask for more than the property (the property needs 'marker first, "
                "one MULTI' and 'skipped by the opposite parser'); they guard the model's correspondence and are labelled as such",
                "./check C13 --replay FILE re-runs the one history / corpus script / database probe the file names (replay.rerun); parse-op and propagation-double "
                "differences are model diffs whose op line is the input"],
}

MANIFEST = {
    "text": "Lean theorems: (mirrored_recognised) for every unit, commit mode, store, clock and Redis propagation variant, every block the commit "
            "leaves in the site's stream — including DEL/UNLINK of the lazily expired marker ahead of the marker SET — is passed over by the opposite "
            "link; (bookkeeping_skipped) every stand-alone bookkeeping request is skipped; (foreign_never_suppressed) a block of forwardable commands "
            "outside the reserved namespace, whatever values it carries, comes out as exactly one unit with exactly its commands or stops the replay; "
            "(exactly_once_and_quiesce) for all interleavings of client writes, ticks, expiries, link steps, snapshot units and bookkeeping at two "
            "sites, each link's commits are exactly the consumed client blocks, once each, and after the last client block further link steps change "
            "nothing; (no_loop_always) for ANY list of events each satisfying a condition on the event alone, from sites holding any data, with restarts of either syncer "
            "that resume at ANY block already reached (also before the last committed unit): no unit is ever built from what the tool wrote, every consumed client block is "
            "committed at least once with its commands, BookClean derived (bookclean_derived) instead of assumed; (no_loop_no_false_suppression) exactly once and quiescence when "
            "every restart resumes at or behind the last committed unit (sync mode) — the unconditional statement is written out and refuted (exactly_once_needs_exact_restarts); "
            "(D31_counterexample) the statement with databases is refuted: the one known exception. Tied to the code by differential correspondence of the predicates, the parser, the propagation double and whole closed-loop "
            "histories through the real parser/commit code.",
    "note": "trusted: Lean kernel, the `propagate` transcription of Redis's propagation rewrites, extractor, harness doubles; the global theorems assume "
            "nothing about states (event-local conditions only); exactly-once under restarts is claimed for exact (sync-mode) restarts only; databases are the known exception (D31)",
    "technique": "Lean 4 proof (parser lemmas over filtered block bodies, shape lemma for propagate, two-site invariant by induction over event lists) + "
                 "differential correspondence + closed-loop monitors",
}
