PROP = {
    "lean_modules": ["GunYu.Model.BisyncSite"],
    "audit_namespaces": [],
    "required_theorems": [],
    "gens": ["c18", "c10"],
    "expected_facts": {},
    "harness": [{"name": "C13", "pkg": "./syncer/", "test": "TestVerifC13"}],
    "driver": "drv_C13",
    "rule": "wip",
    "trusted": [],
    "assumptions": [],
    "partial": [],
}
MANIFEST = {"text": "wip", "note": "wip", "technique": "wip"}
