PROP = {
    "lean_modules": ["GunYu.Props.C14", "GunYu.Props.C14Proc", "GunYu.Props.C14Renumber", "GunYu.Props.C14Units", "GunYu.Props.C14Sync", "GunYu.Props.C14Gen"],
    "audit_namespaces": ["GunYu.Props.C14"],
    "required_theorems": [
        "GunYu.Props.C14.rebuild_contiguous",
        "GunYu.Props.C14.rebuild_gap_is_error",
        "GunYu.Props.C14.init_inv",
        "GunYu.Props.C14.each_request_preserves",
        "GunYu.Props.C14.resume_is_committed_prefix",
        "GunYu.Props.C14.coordinator_frontier_is_committed_prefix",
        "GunYu.Props.C14.start_always_resumes",
        "GunYu.Props.C14.sync_mode_exact",
        "GunYu.Props.C14.consistent_of_inv",
        "GunYu.Props.C14.resume_monotone",
        "GunYu.Props.C14.resume_monotone_rooted",
        "GunYu.Props.C14.traffic_init_inv",
        "GunYu.Props.C14.traffic_each_step_preserves",
        "GunYu.Props.C14.resume_monotone_traffic",
        "GunYu.Props.C14.proc_init_inv",
        "GunYu.Props.C14.proc_each_step_preserves",
        "GunYu.Props.C14.resume_monotone_process",
        "GunYu.Props.C14.inprocess_answer_is_committed_prefix",
        "GunYu.Props.C14.floor_is_latest_answer",
        "GunYu.Props.C14.inprocess_start_never_below",
        "GunYu.Props.C14.start_answer_is_unit_end",
        "GunYu.Props.C14.inprocess_start_offset_never_below",
        "GunYu.Props.C14.restart_returns_root",
        "GunYu.Props.C14.stale_after_deletes",
        "GunYu.Props.C14.renumber_init_inv",
        "GunYu.Props.C14.renumber_each_step_preserves",
        "GunYu.Props.C14.renumber_spans",
        "GunYu.Props.C14.unit_offsets_grow",
        "GunYu.Props.C14.unit_offsets_grow_from",
        "GunYu.Props.C14.resume_monotone_traffic_parsed",
        "GunYu.Props.C14.resume_monotone_process_parsed",
        "GunYu.Props.C14.best_latest_is_max_end_offset",
        "GunYu.Props.C14.sync_start_one_slot",
        "GunYu.Props.C14.syncN_init_inv",
        "GunYu.Props.C14.syncN_each_step_preserves",
        "GunYu.Props.C14.sync_mode_exact_slots",
        "GunYu.Props.C14.sync_mode_exact_slots_numbered",
        "GunYu.Props.C14.gen_clone_eq",
        "GunYu.Props.C14.gen_rebuild_eq_model",
        "GunYu.Props.C14.gen_bestLatest_eq_model",
        "GunYu.Props.C14.gen_rebuild_contiguous",
        "GunYu.Props.C14.gen_rebuild_eq_model_nil",
    ],
    "gens": ["c17"],
    # Model/FrontierTraffic.lean (resume_monotone_traffic) lets no unit commit while a recovery request of the start is
    # outstanding: the recovery runs synchronously inside bisyncStartPoint (no goroutine started there or in the two
    # functions it calls for the purge / the clean-up), StartPoint calls it directly; c14l also checks it on the request log
    "expected_facts": {
        "c14_start_sync": {"bisyncStartPoint": [], "purgeBisyncRecoveryState": [], "cleanupRecoveredBisyncCommitRecords": []},
        "c14_startpoint_calls": ["sp, seq, ok, err := ro.bisyncStartPoint(ctx, runIds)"],
        # process-global state reached by the recovery code (dimension audit, item 4): only the slot-tag cache
        # (sync.Map + sync.Once + a table written inside the Once); first use under concurrency: c14r's first step
        "c14_pkg_globals": [
            "pkg/redis/checkpoint/bisync.go:bisyncSlotTagCache:.Load in BisyncSlotTag",
            "pkg/redis/checkpoint/bisync.go:bisyncSlotTagCache:.Store in BisyncSlotTag",
            "pkg/redis/checkpoint/bisync.go:bisyncSlotTagCache:.Store in initBisyncSlotTags",
            "pkg/redis/checkpoint/bisync.go:bisyncSlotTagsBySlot:written in initBisyncSlotTags",
            "pkg/redis/checkpoint/bisync.go:bisyncSlotTagsOnce:.Do in BisyncSlotTag",
        ],
    },
    # the flush policy constants (unit threshold, interval) are a tuning parameter: the model is parameterised
    # by them (Model/Frontier.lean FlushPolicy, World.pol), the c14c run passes the code's values to the driver
    "harness": [
        {"name": "C14rebuild", "pkg": "./pkg/redis/checkpoint/", "test": "TestVerifC14Rebuild"},
        {"name": "C14", "pkg": "./syncer/", "test": "TestVerifC14"},
        {"name": "C14loop", "pkg": "./syncer/", "test": "TestVerifC14Loop"},
    ],
    "driver": "drv_C14",
    "rule": "c14r: corpus; ALL 64 subsets (two orders each) of a 6-record journal under no snapshot / snapshot seq 0 / seq 2; "
            "generated snapshot (nil, seq -3..12, versions) + 0-9 records with gaps (also right after the snapshot), duplicate "
            "sequence numbers with other mtime/offset/run id, seq <= 0, records the snapshot already covers, nil entries, shuffled: "
            "real RebuildBisyncFrontier vs Lean `rebuild`; oracle: never before the snapshot, no missing number passed, offset of a "
            "record with that number, does not stop early, arguments not mutated. "
            "c14s: corpus (D12 / D21 witnesses); generated namespaces on the target double (frontier snapshot present / absent / seq 0 / "
            "foreign run id, journal 0-7 units after it with gaps, records without index entry, index entries without record, "
            "leftovers the snapshot covers, foreign run ids, root checkpoint absent / older / newer / in DB 1-3, latest record), "
            "modes parallel / pipeline / sync: real RedisOutput.bisyncStartPoint of a FRESH process over the real conn.RedisConn; every "
            "write request is a crash point (vfdoubles.Replay of the request prefix, fresh process starts again); chains of up to 3 "
            "further restarts from a random crash point. Result, requests and the start point after every prefix vs Lean "
            "`startFrontier`/`startLatest`. Monitors: selected seq never passes a number missing from the visible journal; a restart "
            "after any prefix never resumes before the previous start / never fails. Faults on the START path: each write request of the start "
            "(snapshot save, journal DEL, ZREM, `del frontier` of the purge / the clean-up) fails in turn: a point still returned is the one "
            "selected without the fault, the next start does not resume before it, and when the numbering restarts (seq 0) a unit K committed "
            "afterwards without units 1..K-1 must not move the resume point (what a failed purge left is not combined with the new numbering). "
            "OTHER DATABASES (seeded C14-r8-m1 = D21 through another door): every c14s / c14p / loop-harness target is a stand-alone double that also holds application keys in DB 2 and in DB 1 or 3 (INFO keyspace lists them; GetCheckpoint visits them in Go's random map order and leaves the connection there; "
            "the C17 harness keeps the plain namespace); every c14s case repeats the fresh start 6 times on the same untouched state: answers must be identical (restart-moves-resume-point-no-traffic, model-free), besides the prefix / fault / loop monitors which then see about every second start read the wrong database. "
            "DIMENSION AUDIT (session 5, last round; counters cfg_* / state_* / offset_* / unit_* / global_* in the evidence): options drawn with every value that selects another branch - replay.mode sync / pipeline / parallel, stand-alone / cluster-typed, lanes 1 / 2 / 3 / 4 (Parallelism; units spread over the lanes), "
            "BatchCmdCount 1 / 4 / 100 (pipeline window, lane buffers, unit buffer), resumeFromBreakPoint true / false (the bidirectional start does not read it; after a full resynchronisation with false the new root lives in memory only and every start is a full synchronisation: counted, see partial); "
            "target state: ANOTHER complete bidirectional namespace beside ours whose checkpoint name has ours as a proper prefix, ahead of ours (monitor start-touches-another-namespace: a start of ours leaves it intact), other non-empty databases, the same sequence number under two slot tags (c14k), leftovers of both recovery formats at once (frontier + journal in sync mode, latest in pipeline / parallel); "
            "degenerate inputs FORCED: c14r sequence numbers at the top of int64 (nextSeq++ wraps), a snapshot at the top, offsets 0 / max, equal mtimes of duplicates, mtime 0 / negative, only non-positive numbers, one record, the snapshot's own number again; c14s unit offsets from 0 and from max int64 - 5000, root at offset 0; source transactions of 2 / 9 / 40 commands (beyond BatchCmdCount) beside single-command units; "
            "process-global state: source fact c14_pkg_globals (only the slot-tag cache: sync.Map + sync.Once + table) and its FIRST USE from 8 goroutines over all 16384 slots as the first step of c14r (slot-tag-first-use-race). "
            "c14k: cluster-typed starts (2-3 slot tags, 16384-tag scan; sync: one latest record per tag): explicit oracle for the selected point, "
            "every write a crash point and a fault point, order-insensitive monitors only. "
            "c14c: real bisyncFrontierCoordinator under testing/synctest virtual time: 1-14 units reported in a random permutation "
            "(bounded and unbounded displacement), double / stale reports, flush ticks, gaps of 0..250 ms around the flush "
            "interval, runs longer than the unit-count threshold (the model takes both values from the code): in-memory frontier, pending, advanced and the requests after every event vs Lean `coordOnCommitted`/`coordFlush`; "
            "monitors: frontier = contiguous reported prefix, a journal record is deleted only after a frontier covering it was saved. "
            "c14n (sync mode on a cluster-typed target, Model/FrontierSyncN.lean): the latest hashes of 0-6 slot tags (pool 0, 5, 866, 4000, 12182, 16383) hold leftovers of an earlier numbering - ANY sequence numbers, "
            "own / previous / foreign run id, ending below / AT / (1 in 8: beyond) the root - then a script of 2-9 steps: r = a FRESH cluster-typed RedisOutput runs the real bisyncStartPoint (16384-tag scan), c<slot> = the real "
            "execBisyncUnit(latestCheckpoint = true) - what sendBisyncSync does per unit - commits the unit that starts at the offset the process holds, numbered bisyncSeq+1, into the latest hash of <slot> (the commit's mtime is read back "
            "and is an input of the model). Every start's answer and the final latest hashes vs Lean `syncNStep` / `startLatestN` (N = 16384); monitors without the model (leftovers not beyond the root): units applied are root, root+100, ... "
            "each exactly once in order (syncn-unit-repeated-or-skipped), every start answers the end and the number of the last committed unit (syncn-start-not-last-committed). "
            "c14b: real LoadBisyncLatestStartRecord over 1-4 recovery slots (latest records with equal / different end offsets and mtimes, foreign ids, "
            "empty slots) vs Lean `bestLatest`. "
            "c14l (send loops): the REAL RedisOutput.StartPoint wrapper + the REAL sendAofBisync (parseAofReplayUnits, sendBisyncSync / sendBisyncPipeline / "
            "sendBisyncParallel with lane workers, receive loop, handleResult, coordinator, final flush) under virtual time on streams of 2-7 units (one a "
            "source transaction), fresh namespace or a stale frontier of an earlier numbering below a newer root, two lanes (cluster-typed configuration, "
            "one lane stalled), abrupt / settled end; fault injection (FailAt / FailInner): coordinator frontier HSET, recovery frontier HSET, a queued "
            "command (EXECABORT), a command failing inside EXEC, a journal DEL. EVERY request prefix (state replayed with the fault failing again) -> fresh "
            "process StartPoint; resumed run from a random crash point to the end. Monitors independent of any model (unit committed = its data key exists): "
            "resume at a unit boundary with every earlier unit committed; sync: exactly the last committed; bisyncSeq = number of that unit; resume never "
            "moves backwards along the log; a start whose own frontier HSET failed is not undercut by the next; tie-shape:recovery-request-after-start-returned (after a start that resumed after unit K no request saves a frontier <= K, deletes the snapshot or deletes / un-indexes journal records <= K: recognised by kind and number, first runs, resumed runs and the scenario c14recoverloop = start with journal records to consume + loop in one process); in-memory bisyncSeq and bisyncOffset at every "
            "request each name a committed prefix (sampled from the double's connection goroutines while the loop stores the two one after the other: judged "
            "one by one; that both name the SAME unit is judged where the code reads them - after the loop returned and at the next StartPoint of the process); second StartPoint of the SAME process (fast path), and a third after a full resynchronisation moved the root "
            "forward (real ResetStartPoint + setCheckpoint): the new root, not the in-memory frontier; resumed run leaves no unit uncommitted. "
            "MATRIX (enumerated, not sampled; source `matrix`): every mode (sync / pipeline / parallel) x every unit k of an n-unit stream (quick n = 3, thorough n = 2..4, both flush variants) x the three ways a unit's transaction goes wrong on the wire - "
            "queued:<k> (a queued command refused: EXECABORT), cutexec:<k> (NEW: the connection is cut when the EXEC arrives, the transaction is NOT executed, no reply; vfdoubles DropAt, replayed as the prefix without that EXEC), "
            "lostreply:<k> (EXEC executed, reply lost) x flush tick before the end or not; each case runs all of the above: EVERY request prefix -> fresh process, AND the same process starts again (c14p) and replays on; "
            "counters loop_matrix_<mode>_<fault>, loop_matrix_fault_not_applicable must stay 0. "
            "Restarts INSIDE a process (Model/FrontierProc.lean): after EVERY kind of loop end (clean, settled, abrupt, stopped by a fault - fault kinds as above plus "
            "lostreply:<u> = the unit's EXEC is executed by the target and its reply never arrives, vfdoubles LoseReplyAt; with a stalled lane) the SAME RedisOutput "
            "calls StartPoint again: op c14p = real StartPoint of the live process vs Lean `pstart` (input: bisyncMissRunID / bisyncSeq / bisyncOffset read from the process + the "
            "namespace read back from the target; output: answer, fast path taken or recovery state read, write requests, memory after the call); judged like a fresh start "
            "(committed prefix, sync mode exactly the last committed unit - also after a lost reply), never below the earlier start of the process (loop-same-process-start-below-earlier), "
            "the process replays on from it (second loop: no unit uncommitted, its crash points judged, fresh starts monotone), third start; then the new-root starts. "
            "c14retry: journal leftovers {K..} of this numbering without the units before them, the first start misses (gap), arms the fast path, the k-th request of its purge "
            "fails (c14p with fail=k: error, memory untouched, flag armed), the retry of the same process is answered by the root WITHOUT purge (c14p), the stream is replayed: "
            "every unit committed, every request prefix -> fresh start names a committed prefix (leftover records count: their units are committed) and never moves backwards. "
            "c14linger2 (pipeline, a connection with a SEND BUFFER between client and double, 12 trials): the loop is stopped with two units sent and unanswered, the same process "
            "restarts and replays on: last value of every key (found the defect fixed by e03e645). "
            "What these two scenarios judge: loop-stale-unit-overwrites-newer = a transaction of the STOPPED loop was applied after a newer write of the same key by the restarted one (a lost write: the target "
            "no longer holds what the committed prefix says - against the property; the statement allows repeats, not a repeat applied after newer data) is the violation; the bare fact that an EXEC of "
            "the stopped loop lands after the loop returned is reported as tie-shape:loop-commits-after-loop-returned - a tie to the guard of TSys / PSys (no unit commits while a start recovers), not the property itself. "
            "c14paced (pipeline / parallel): the stream arrives unit by unit with flush ticks in between (the coordinator saves frontiers as it goes), one unit is refused (EXECABORT), the same "
            "process starts again from memory (c14p) and replays on, paced again: every request prefix of the second loop -> fresh start names a committed prefix and never moves backwards "
            "(the in-memory frontier must not be below the STORED snapshot: invariant snapLe of the model). "
            "c14recoverloop also runs the second start of its (not armed) process through c14p. "
            "c14linger (all three modes): a loop stopped while a lane holds a unit, the SAME process starts again and replays on (unit 3 rewrites unit 1's key), "
            "the stalled lane is released: the target ends with the last value of every key (violation), no EXEC of the first loop after it returned (tie-shape). "
            "c14recoverloop: snapshot at unit 1 + journal 2, 3, StartPoint (clean-up) and the loop for units 4, 5 under one virtual clock: every request prefix -> "
            "fresh start never before the previous prefix's. "
            "REGENERATED tie (generator c14, harness/extract/gofn_c14.go -> lean/GunYu/Gen/FnC14Frontier.lean on every run): RebuildBisyncFrontier as a whole (map, range loop, `for {}`, Clone, lazy ||, wrapping nextSeq++), "
            "BisyncFrontierSnapshot.Clone and the selection part of LoadBisyncLatestStartRecord's loop are TRANSLATED from the Go source; gen_rebuild_eq_model / gen_bestLatest_eq_model / gen_clone_eq prove the translation equal to "
            "`rebuild` / `bestLatest` for all int64 inputs, so an edit of those functions must keep the proofs alive (a construct outside the translator's subset = gen_errors = broken tie). "
            "distinct_nontrivial = distinct (mode, #requests, journal size, index size) with clean-up / (#events, #requests) / advancing rebuilds / (mode, fast path, #requests, failing request, which start) of c14p / (#leftovers, #commits, #steps, monitored) of c14n",
    "trusted": ["target double harness/overlay/pkg/vfdoubles/target.go (HSET/HGETALL/DEL/ZADD/ZREM/ZRANGEBYSCORE/INFO keyspace/SELECT semantics of a standalone Redis; LoseReplyAt = request executed, connection closed without the reply)",
                "vfLSock (vf_c14_loop_test.go): a send buffer between client and double - Write never blocks on the peer, Close delivers what is queued (what close(2) does on a TCP socket); used by c14linger2 only",
                "the translator harness/extract/gofn_c14.go (about 700 lines: its reading of `*T` as Option T over the MODEL's structures Rec / Snap, of map[int64]*T as an association list (mapGet / mapSet, generated into the file), of `for {}` as recursion on a fuel argument, lazy || / &&, GoSem.addI for int64 +) - the differential ops c14r / c14b / c14n on the real code stay in place as the independent check of it",
                "a unit's data, journal record and index entry are one MULTI/EXEC (dispatchBisyncUnit queues them on a TxnBatcher; C13/C18 check the batch) - modelled as the single request `commit`"],
    "assumptions": [
        "standalone target: one recovery slot (bisyncRecoverySlots() = [0]), every unit forced to slot 0; cluster mode (16384 slot tags, one index per slot, lanes on several nodes) is covered by the theorems about `rebuild` and the coordinator only",
        "a numbering RESTART inside an execution is the atomic step `resync` of Model/FrontierRenumber.lean (the root of the new numbering written over whatever the old one left, minus ANY list of delete requests, no process running, nothing committed under the new numbering yet): renumber_spans covers every state an execution under the old numbering can leave and every partial purge; the requests of ResetStartPoint / SendRdb / setCheckpoint themselves and their crash points belong to C17 / C20; hypothesis: the new root lies beyond the old root and beyond the end of every unit committed under the old numbering (the snapshot of a full resynchronisation is taken after everything replayed before) - a new root INSIDE the old numbering's range is outside the theorem",
        "renumber_spans is about FRESH processes (TSys); the frontier-miss fast path (PSys) is proved for ONE numbering. Their combination is not a theorem and is false in one corner: leftovers of an OLDER numbering that form a snapshot-less gap journal under a newer root, the purge of the first start fails half-way, the SAME process retries: the fast path returns the root WITHOUT purge, the leftovers survive into the new numbering (a later fresh start may combine them with new records and fall back to the root: resume point moves backwards, nothing skipped). Not reachable in the current code (every full resynchronisation completes ResetStartPoint's purge before the new root exists; a stale SNAPSHOT takes the root-override path, which does not arm the fast path) - c14retry exercises the same-numbering case only",
        "the in-process restart is tied by op c14p on the standalone configuration in pipeline / parallel mode (cluster-typed two-lane cases and sync mode: monitors only; sync mode has no fast path - seeded mutation C14-r5-m1 hoisted it there and is caught by the lostreply cases)",
        "end offsets grow with the unit number: PROVED for the units the parser model emits (unit_offsets_grow over Model/Bisync.lean `parse`, the model C13 ties to parseAofReplayUnits; resume_monotone_traffic_parsed / resume_monotone_process_parsed have no such hypothesis). What remains assumed - World.e fixed: the unit boundaries of the stream are the same after every restart, i.e. the output filter, database blacklist and slot mode are unchanged across restarts (units are what survives FilterCmd / FilterCmdKey / bypass; a configuration change renumbers the stream while journal leftovers of the old numbering survive)",
        "resume_monotone_traffic / W.rid, hvis: every record of an execution carries ONE run id, which the source still reports; a source fail-over inside an execution (snapshot under the old id, records under the new, later the old id no longer reported) is outside the theorem",
        "crash = the process stops and the requests it had not yet had applied are lost (TSys `.crash` drops both queues): bytes of a killed process still in a socket buffer of a stalled target node, executed after the next process started its recovery, are outside the model and the harness",
        "inside ONE process the guard of TSys (no unit commits while a recovery request of a start is outstanding) holds because bisyncStartPoint is synchronous (facts c14_start_sync over the call graph of package syncer + pkg/redis/checkpoint, c14_startpoint_calls) AND because a send loop does not return before everything it has sent is answered (true of the parallel loop since D35, 6f3a602, of the pipeline loop since e03e645; scenarios c14linger / c14linger2 keep it)",
        "PSys vs the code's behaviour after a failed request: `report i` (needs unit i committed at some time, not in this run) and `stop` (drops the requests not applied yet, memory = the coordinator's frontier; memory lagging after a failed save inside onCommitted = `stop` taken before that `report`) are over-approximations. The fault steps are NOT a superset: `apply` consumes the head of a queue, `stop` / `giveUp` drop a whole queue, but the code also SKIPS a failed request and goes on (clean-up: DEL fails -> ZREM still sent; coordinator.flush: a failed journal DEL is logged and the loop goes on). The resulting namespaces (a journal record without index member) are not states of PSys / TSys; they are harmless - such a record is invisible to every start (proved for the restart invariant RInv up to `scrub`, Proofs/FrontierScrub.lean) - but for PInv / TInv this is argued and monitored (fault cases `del` of c14l, start faults of c14s), not proved: a `skip` step + PInv up to scrub is open. A request the target APPLIED whose reply is lost is a harness fault for unit transactions and the coordinator's frontier save (lostreply / lostsave), not a step of the model: after lostsave the memory is one report below the stored snapshot (invariant snapLe false in that Go state); the journal records above the memory are still there (the DELs are issued after the save returned), so a later fresh start does not regress - only the harness (lostsave, c14paced) stands behind this",
        "the *_parsed theorems are ONE parse from the root. That a loop which re-parses from a unit end (fresh bypass / inTxn / txn / current DB; the reader injects the SELECT of the resume DB) yields the tail of the same unit list is NOT proved (it looks provable: after every emit bypass = false, inTxn = false, txn = []) - it is part of `World.e fixed`, also with an unchanged configuration",
        "ResetStartPoint's purge loads the journal filtered by {cfg.RunId, reader id, current ids} while `del frontier` is unconditional: records of a run id outside that list survive snapshot-less; they are invisible until that id is reported again, and then the root found under it is the old one (same numbering = the c14retry case)",
        "op c14p: the memory after a start WITHOUT root checkpoint (bisyncSeq 0 / offset -1) is tied by two fixed cases (c14rootless); `pstart` does not write seq / off into the memory on a successful start (the memory is read only after `stop` copied the coordinator's frontier, which starts as the answer) - the driver appends that `stop`; c14p with fail=k on a start that does not purge is not generated (formats differ there: it would show as a diff)",
        "RDB phase units (bisync_rdb.go, `rdb:` records) are outside the property (incremental replay)",
        "sync mode over N slots (sync_mode_exact_slots): the leftovers in the latest hashes may carry ANY sequence numbers and any run ids but must not END beyond the root checkpoint (a root inside the old numbering's range is outside the theorem, as for renumber_spans; c14n generates it 1 in 8 and compares with the model only); the units of one execution are recorded under ONE run id that the source reports (rid, hrid); the unit boundaries are a function `next` of the position (World.e fixed, see above); a unit's commit is one atomic step (the MULTI/EXEC assumption above) that writes the latest hash of the UNIT'S slot only (dispatchBisyncUnit: tied by c14n's final dump of the latest hashes); the I/O part of LoadBisyncLatestStartRecord before the selection (one HGETALL per slot key in slot order, empty hashes skipped, parse errors abort) is tied by c14b / c14n, not translated",
        "gen_rebuild_eq_model: sequence numbers in the int64 range (they are int64 in Go); gen_rebuild_eq_model_nil extends it to record slices WITH nil entries anywhere and to every fuel >= (non-nil records)+1 (advance_fix: a pigeonhole over the records numbered above the frontier; advance_stable); excluded - because there the code and `rebuild` of the non-nil records really differ - is a NON-empty slice of nil entries only (len(records) != 0, nothing is filed, minSeq stays 0: ErrBisyncJournalGap behind an absent / seq-0 snapshot, where `rebuild _ []` returns the snapshot; LoadBisyncCommitRecords never appends a nil entry and bisyncStartPoint treats both answers as a miss); ErrBisyncJournalGap is the Bool `true` (the function returns no other error)",
        "cluster: the model has one journal / index; several slot tags are covered by `rebuild` (any record list), c14b (best latest over slots) and the cluster-typed starts c14k (2-3 slot tags, the 16384-tag scan, purge / clean-up over a Go map of index keys: order-insensitive monitors with an explicit oracle, every write a crash point and a fault point) - no request-sequence comparison there",
        "reviewer's mutant m5 (lane worker ignores validateBisyncExecReplies) is behaviourally equivalent: txnBatcher.Receive already rejects EXECABORT and inner errors (common.CheckTxnRepliesError) before the validation is reached - verified with the queued / inner fault cases under the mutant",
    ],
    "partial": [
        "monotonicity of the resume point along executions WITH traffic is PROVED for the split-queue system (resume_monotone_traffic over Model/FrontierTraffic.lean) and for the system with the memory of the process (resume_monotone_process over Model/FrontierProc.lean: same-process restarts answered by the frontier-miss fast path from memory or by the root without purge, loops that stop at any moment, a start whose purge fails and is retried, a clean-up that gives up): what a fresh start would resume from never decreases and names a committed prefix; what a start of the live process returns is a committed prefix (inprocess_answer_is_committed_prefix) and never below an earlier start of the same process (inprocess_start_never_below). Rests on: (1) the guard - no unit commits / is reported while a recovery request of the start is outstanding (source facts c14_start_sync / c14_startpoint_calls, monitor tie-shape:recovery-request-after-start-returned, the loops join what they sent: c14linger / c14linger2); (2) hypotheses: strictly growing end offsets (discharged for parsed streams: unit_offsets_grow), the source still reports the run id of the records (hvis), the initial state satisfies the invariant (a fresh namespace: traffic_init_inv / proc_init_inv; after a numbering restart: renumber_init_inv); (3) ONE numbering in PSys",
        "two numberings are spanned by renumber_spans (execution under W1, `resync`, execution under W2: the resume offset does not decrease across the restart, is monotone after it, and the sequence number counts units of the new numbering only) for FRESH-process starts; the invariant is stated up to `scrub` (records / snapshot no start can read, proved irrelevant: Proofs/FrontierScrub.lean) and needs unique journal keys (a keyspace is a map; preserved by every step). Not covered: the fast path across a numbering restart (see assumptions; tied by the new-root c14p starts and monitors), a root inside the old range, run-id changes inside W2 (W.ids fixed)",
        "OBSERVATION (liveness, outside C14): the wait e03e645 added to the pipeline loop (replies of every unit sent) has no bound - NewRedisConn ignores ctx, the standalone RedisConn has no read deadline, the cluster client no ReadTimeout: a target that keeps the connection open and never answers holds sendBisyncPipeline (and run(), Stop(), a leadership hand-over) for ever. Not a new class (before the fix <-receiveDone waited on a receiver in the same deadline-less Receive; sync mode and the parallel lanes block the same way); the fix widens it from the unit being received to window + 1 units. No harness case (vfLSock delivers or closes, never stalls for ever). Residual safety hole the wait does not close: a Receive that fails because the CONNECTION failed (RST / keep-alive expiry) while the bytes are in the socket buffer of a stalled target - the loop returns, the transaction is executed later: the same corner as the `crash` assumption",
        "sync mode on a cluster is now PROVED for any number of slots (sync_mode_exact_slots over Model/FrontierSyncN.lean: units in any slots, restarts that re-scan, any leftovers not ending beyond the root - root override without purge -, exactly-once in order, start = end and number of the last committed unit; best_latest_is_max_end_offset: the selection is by end offset; sync_start_one_slot bridges to sync_mode_exact) and tied by c14n. Still partial there: a crash is the atomic restart step (no request-level crash points inside a start: a sync start issues no write request), lost-reply / cut connections in sync mode are exercised by the matrix on the standalone configuration only, a source fail-over inside an execution (two run ids) is outside",
        "REGENERATED: RebuildBisyncFrontier, Clone, the latest selection (Props/C14Gen.lean). NOT regenerated (hand model + correspondence only): LoadBisyncCommitRecords' filtering, cleanupRecoveredBisyncCommitRecords / purgeBisyncRecoveryState (they interleave I/O with the computation), bisyncFrontierCoordinator.onCommitted / flush (a struct with a SortedMap and a clock), bisyncStartPoint's branch structure, bisyncFrontierMissFastPath",
        "renumber_spans x same-process restarts (focus item of session 5) is NOT done: the combination theorem is still false in the corner described under assumptions; PSys has one numbering",
        "OBSERVATION (configuration, outside C14's statement): bisyncEnabled with resumeFromBreakPoint: false never resumes - setCheckpoint keeps the root in memory, bisyncStartPoint reads only the target, so every restart (also inside the process, where the one-directional path uses the in-memory position) is a full resynchronisation; nothing is skipped or applied out of order, the frontier / journal the incremental replay writes meanwhile are purged by the next ResetStartPoint. Counted (cfg_resumeFromBreakPoint_false_new_root_full_sync), not judged",
        "DECISION on the unbounded wait of e03e645: left as an OBSERVATION, no change to /repo. A bound needs a read deadline on conn.RedisConn (the `@TODO readTimeout` at redis_conn.go:29) or closing the connection when ctx ends; the first changes every blocking read of the client (PSYNC / RDB transfer / long commands of other outputs share the type), the second needs NewRedisConn to honour ctx (it ignores it today) - neither is small and safe, and both only trade the hang for the `crash` corner (the transaction still executes later on a stalled target)",
    ],
}

MANIFEST = {
    "text": "Lean theorems: RebuildBisyncFrontier never passes a missing sequence number for ALL snapshots and record lists (any surviving subset, duplicates, order); "
            "an invariant of the replay transition system (unit transactions in any lane order, completion reports in any order, flush ticks at any time, "
            "each queued frontier-save / journal DEL / ZREM / recovery request applied one at a time, crash and restart anywhere) proves that at EVERY crash point "
            "the start point is the end of a committed unit with every earlier unit committed; sync mode resumes exactly after the last committed unit; "
            "any number of stop/start cycles, each cut after any number of recovery requests, never moves the resume point backwards; "
            "the same with restarts INSIDE a process as steps (frontier-miss fast path answering from memory or by the root without purge, loops that stop, a purge that fails and is retried): "
            "the in-memory answer is a committed prefix and never below an earlier start of the process; one theorem spans a numbering restart (old execution, new root over any leftovers, new execution: "
            "offset never decreases, units of the old numbering are never counted); end offsets grow with the unit number is proved from the parser model; sync mode over ANY number of cluster slots with leftovers of earlier numberings in other slots resumes exactly after the last committed unit (sync_mode_exact_slots); "
            "RebuildBisyncFrontier, Clone and the latest-record selection are TRANSLATED from the Go source on every run and proved equal to the model (gen_rebuild_eq_model, gen_bestLatest_eq_model). "
            "Tied to the code by differential correspondence of the real RebuildBisyncFrontier, bisyncFrontierCoordinator (virtual time) and "
            "bisyncStartPoint + clean-up against the target double with every request prefix replayed, StartPoint of a LIVE process (memory + namespace -> answer, requests, memory) vs `pstart`, scripts of starts and real unit commits on a cluster-typed target vs `syncNStep`, an enumerated mode x unit x wire-fault matrix, plus independent monitors. "
            "Six defects found and fixed (e03e645: the pipeline send loop returned while transactions it had sent were unanswered - after an in-process restart the stale transaction overwrote newer data; D35: the parallel send loop returned while a lane could still commit - after an in-process restart the stale unit overwrote newer data; D12: recovery deleted journal records without saving the rebuilt frontier; D21: recovery keys read in the database GetCheckpoint visited last; D25: numbering restart over the stale frontier of the previous numbering skipped units; D26: journal gap made every start fail).",
    "note": "trusted: Lean kernel (propext, Classical.choice, Quot.sound only), target double, extractor, harness; models hand-written and tied by correspondence; the flush policy is a parameter of the model (FlushPolicy, any value), the run passes the code's values",
    "technique": "Lean 4 proof (fold invariants, transition-system invariant by induction over step lists) + differential correspondence over every request prefix (crash points) under virtual time",
}
