PROP = {
    "lean_modules": ["GunYu.Props.C14"],
    "audit_namespaces": ["GunYu.Props.C14"],
    "required_theorems": [
        "GunYu.Props.C14.rebuild_contiguous",
        "GunYu.Props.C14.rebuild_gap_is_error",
        "GunYu.Props.C14.init_inv",
        "GunYu.Props.C14.each_request_preserves",
        "GunYu.Props.C14.resume_is_committed_prefix",
        "GunYu.Props.C14.coordinator_frontier_is_committed_prefix",
        "GunYu.Props.C14.start_always_resumes",
        "GunYu.Props.C14.sync_mode_exact",
        "GunYu.Props.C14.consistent_of_inv",
        "GunYu.Props.C14.resume_monotone",
        "GunYu.Props.C14.resume_monotone_rooted",
        "GunYu.Props.C14.traffic_init_inv",
        "GunYu.Props.C14.traffic_each_step_preserves",
        "GunYu.Props.C14.resume_monotone_traffic",
    ],
    "gens": ["c17"],
    # Model/FrontierTraffic.lean (resume_monotone_traffic) lets no unit commit while a recovery request of the start is
    # outstanding: the recovery runs synchronously inside bisyncStartPoint (no goroutine started there or in the two
    # functions it calls for the purge / the clean-up), StartPoint calls it directly; c14l also checks it on the request log
    "expected_facts": {
        "c14_start_sync": {"bisyncStartPoint": [], "purgeBisyncRecoveryState": [], "cleanupRecoveredBisyncCommitRecords": []},
        "c14_startpoint_calls": ["sp, seq, ok, err := ro.bisyncStartPoint(ctx, runIds)"],
    },
    # the flush policy constants (unit threshold, interval) are a tuning parameter: the model is parameterised
    # by them (Model/Frontier.lean FlushPolicy, World.pol), the c14c run passes the code's values to the driver
    "harness": [
        {"name": "C14rebuild", "pkg": "./pkg/redis/checkpoint/", "test": "TestVerifC14Rebuild"},
        {"name": "C14", "pkg": "./syncer/", "test": "TestVerifC14"},
        {"name": "C14loop", "pkg": "./syncer/", "test": "TestVerifC14Loop"},
    ],
    "driver": "drv_C14",
    "rule": "c14r: corpus; ALL 64 subsets (two orders each) of a 6-record journal under no snapshot / snapshot seq 0 / seq 2; "
            "generated snapshot (nil, seq -3..12, versions) + 0-9 records with gaps (also right after the snapshot), duplicate "
            "sequence numbers with other mtime/offset/run id, seq <= 0, records the snapshot already covers, nil entries, shuffled: "
            "real RebuildBisyncFrontier vs Lean `rebuild`; oracle: never before the snapshot, no missing number passed, offset of a "
            "record with that number, does not stop early, arguments not mutated. "
            "c14s: corpus (D12 / D21 witnesses); generated namespaces on the target double (frontier snapshot present / absent / seq 0 / "
            "foreign run id, journal 0-7 units after it with gaps, records without index entry, index entries without record, "
            "leftovers the snapshot covers, foreign run ids, root checkpoint absent / older / newer / in DB 1-3, latest record), "
            "modes parallel / pipeline / sync: real RedisOutput.bisyncStartPoint of a FRESH process over the real conn.RedisConn; every "
            "write request is a crash point (vfdoubles.Replay of the request prefix, fresh process starts again); chains of up to 3 "
            "further restarts from a random crash point. Result, requests and the start point after every prefix vs Lean "
            "`startFrontier`/`startLatest`. Monitors: selected seq never passes a number missing from the visible journal; a restart "
            "after any prefix never resumes before the previous start / never fails. Faults on the START path: each write request of the start "
            "(snapshot save, journal DEL, ZREM, `del frontier` of the purge / the clean-up) fails in turn: a point still returned is the one "
            "selected without the fault, the next start does not resume before it, and when the numbering restarts (seq 0) a unit K committed "
            "afterwards without units 1..K-1 must not move the resume point (what a failed purge left is not combined with the new numbering). "
            "c14k: cluster-typed starts (2-3 slot tags, 16384-tag scan; sync: one latest record per tag): explicit oracle for the selected point, "
            "every write a crash point and a fault point, order-insensitive monitors only. "
            "c14c: real bisyncFrontierCoordinator under testing/synctest virtual time: 1-14 units reported in a random permutation "
            "(bounded and unbounded displacement), double / stale reports, flush ticks, gaps of 0..250 ms around the flush "
            "interval, runs longer than the unit-count threshold (the model takes both values from the code): in-memory frontier, pending, advanced and the requests after every event vs Lean `coordOnCommitted`/`coordFlush`; "
            "monitors: frontier = contiguous reported prefix, a journal record is deleted only after a frontier covering it was saved. "
            "c14b: real LoadBisyncLatestStartRecord over 1-4 recovery slots (latest records with equal / different end offsets and mtimes, foreign ids, "
            "empty slots) vs Lean `bestLatest`. "
            "c14l (send loops): the REAL RedisOutput.StartPoint wrapper + the REAL sendAofBisync (parseAofReplayUnits, sendBisyncSync / sendBisyncPipeline / "
            "sendBisyncParallel with lane workers, receive loop, handleResult, coordinator, final flush) under virtual time on streams of 2-7 units (one a "
            "source transaction), fresh namespace or a stale frontier of an earlier numbering below a newer root, two lanes (cluster-typed configuration, "
            "one lane stalled), abrupt / settled end; fault injection (FailAt / FailInner): coordinator frontier HSET, recovery frontier HSET, a queued "
            "command (EXECABORT), a command failing inside EXEC, a journal DEL. EVERY request prefix (state replayed with the fault failing again) -> fresh "
            "process StartPoint; resumed run from a random crash point to the end. Monitors independent of any model (unit committed = its data key exists): "
            "resume at a unit boundary with every earlier unit committed; sync: exactly the last committed; bisyncSeq = number of that unit; resume never "
            "moves backwards along the log; a start whose own frontier HSET failed is not undercut by the next; tie-shape:recovery-request-after-start-returned (after a start that resumed after unit K no request saves a frontier <= K, deletes the snapshot or deletes / un-indexes journal records <= K: recognised by kind and number, first runs, resumed runs and the scenario c14recoverloop = start with journal records to consume + loop in one process); in-memory bisyncSeq and bisyncOffset at every "
            "request each name a committed prefix (sampled from the double's connection goroutines while the loop stores the two one after the other: judged "
            "one by one; that both name the SAME unit is judged where the code reads them - after the loop returned and at the next StartPoint of the process); second StartPoint of the SAME process (fast path), and a third after a full resynchronisation moved the root "
            "forward (real ResetStartPoint + setCheckpoint): the new root, not the in-memory frontier; resumed run leaves no unit uncommitted. "
            "c14linger (all three modes): a loop stopped while a lane holds a unit, the SAME process starts again and replays on (unit 3 rewrites unit 1's key), "
            "the stalled lane is released: no EXEC of the first loop after it returned, the target ends with the last value of every key. "
            "c14recoverloop: snapshot at unit 1 + journal 2, 3, StartPoint (clean-up) and the loop for units 4, 5 under one virtual clock: every request prefix -> "
            "fresh start never before the previous prefix's. "
            "distinct_nontrivial = distinct (mode, #requests, journal size, index size) with clean-up / (#events, #requests) / advancing rebuilds",
    "trusted": ["target double harness/overlay/pkg/vfdoubles/target.go (HSET/HGETALL/DEL/ZADD/ZREM/ZRANGEBYSCORE/INFO keyspace/SELECT semantics of a standalone Redis)",
                "a unit's data, journal record and index entry are one MULTI/EXEC (dispatchBisyncUnit queues them on a TxnBatcher; C13/C18 check the batch) - modelled as the single request `commit`"],
    "assumptions": [
        "standalone target: one recovery slot (bisyncRecoverySlots() = [0]), every unit forced to slot 0; cluster mode (16384 slot tags, one index per slot, lanes on several nodes) is covered by the theorems about `rebuild` and the coordinator only",
        "one numbering of units per namespace (World.e, root = e 0) in the invariant theorems; the numbering RESTART (root newer than the frontier after a finished full sync, no frontier, journal gap: start returns the root with seq 0) is in the start-point model (purge of the previous numbering's journal + snapshot, D25/D26) and tied by correspondence; that no unit is skipped across a restart of the numbering is checked on the real send loops (c14l, stale-frontier and two-lane cases), not proved",
        "the request-sequence comparison of c14s is a FRESH process per start; the in-memory frontier-miss fast path (second StartPoint of the same RedisOutput) is monitored in c14l: after the loop, and after a full resynchronisation moved the root forward (real ResetStartPoint + setCheckpoint, with and without the in-memory offset a completed SendRdb leaves) the same process must resume at the new root",
        "resume_monotone_traffic / World.e fixed: the unit boundaries of the stream are the same after every restart, i.e. the output filter, database blacklist and slot mode are unchanged across restarts (units are what survives FilterCmd / FilterCmdKey / bypass; a configuration change renumbers the stream while journal leftovers of the old numbering survive)",
        "resume_monotone_traffic / W.rid, hvis: every record of an execution carries ONE run id, which the source still reports; a source fail-over inside an execution (snapshot under the old id, records under the new, later the old id no longer reported) is outside the theorem",
        "crash = the process stops and the requests it had not yet had applied are lost (TSys `.crash` drops both queues): bytes of a killed process still in a socket buffer of a stalled target node, executed after the next process started its recovery, are outside the model and the harness",
        "inside ONE process the guard of TSys (no unit commits while a recovery request of a start is outstanding) holds because bisyncStartPoint is synchronous (facts c14_start_sync over the call graph of package syncer + pkg/redis/checkpoint, c14_startpoint_calls) AND because a send loop does not return before its lanes have finished (true of the parallel loop only since D35, 6f3a602; scenario c14linger keeps it)",
        "RDB phase units (bisync_rdb.go, `rdb:` records) are outside the property (incremental replay)",
        "cluster: the model has one journal / index; several slot tags are covered by `rebuild` (any record list), c14b (best latest over slots) and the cluster-typed starts c14k (2-3 slot tags, the 16384-tag scan, purge / clean-up over a Go map of index keys: order-insensitive monitors with an explicit oracle, every write a crash point and a fault point) - no request-sequence comparison there",
        "reviewer's mutant m5 (lane worker ignores validateBisyncExecReplies) is behaviourally equivalent: txnBatcher.Receive already rejects EXECABORT and inner errors (common.CheckTxnRepliesError) before the validation is reached - verified with the queued / inner fault cases under the mutant",
    ],
    "partial": [
        "monotonicity of the resume point along executions WITH traffic is PROVED for the split-queue system (resume_monotone_traffic over Model/FrontierTraffic.lean: commits on any lanes in any order, reports in any order, ticks at any time under any FlushPolicy, every request applied on its own, crash after any request, restarts): sequence number and offset a fresh start would resume from never decrease, and name a committed prefix. What it rests on beyond the one-queue model: (1) no unit commits / is reported while a recovery request of the start is outstanding - source facts c14_start_sync / c14_startpoint_calls and the c14l monitor loop-recovery-overlaps-send-loop; (2) hypotheses: end offsets grow with the unit number, the source still reports the run id the units are recorded under (matchRun W.rid W.ids), index members are scored with their key's number and a root checkpoint exists in the initial state (both hold in a fresh namespace, traffic_init_inv, and are preserved). One numbering only (World.e): a numbering restart inside the execution happens only from resume number 0 (root fall-back), which the theorem covers; two numberings with different offsets are not spanned. NOT a step of TSys: the in-process frontier-miss fast path (bisyncFrontierMissFastPath: after one miss every later StartPoint of the same RedisOutput answers from memory - the contiguous REPORTED prefix, possibly behind units already committed - or returns the root without purge): same-process restarts are outside the theorem and covered by the c14l monitors only (second / third StartPoint of the same process after clean loops, c14linger after a stopped parallel loop, c14recoverloop)",
        "numbering restart (root newer / no frontier / journal gap: the start returns the root with seq 0 and purges the previous numbering) is in the start-point model and tied by correspondence + monitors (c14s requests, start-fault-renumber-skips-unit, c14l stale-frontier cases); the invariant theorems fix ONE numbering (World.e): no theorem spans two numberings",
        "sync mode on a cluster (several latest records, root override without purge, rests on LoadBisyncLatestStartRecord ordering by end offset first): sync_mode_exact has one slot; c14b and the c14k sync cases check the real selection against an explicit oracle",
    ],
}

MANIFEST = {
    "text": "Lean theorems: RebuildBisyncFrontier never passes a missing sequence number for ALL snapshots and record lists (any surviving subset, duplicates, order); "
            "an invariant of the replay transition system (unit transactions in any lane order, completion reports in any order, flush ticks at any time, "
            "each queued frontier-save / journal DEL / ZREM / recovery request applied one at a time, crash and restart anywhere) proves that at EVERY crash point "
            "the start point is the end of a committed unit with every earlier unit committed; sync mode resumes exactly after the last committed unit; "
            "any number of stop/start cycles, each cut after any number of recovery requests, never moves the resume point backwards. "
            "Tied to the code by differential correspondence of the real RebuildBisyncFrontier, bisyncFrontierCoordinator (virtual time) and "
            "bisyncStartPoint + clean-up against the target double with every request prefix replayed, plus independent monitors. "
            "Five defects found and fixed (D35: the parallel send loop returned while a lane could still commit - after an in-process restart the stale unit overwrote newer data; D12: recovery deleted journal records without saving the rebuilt frontier; D21: recovery keys read in the database GetCheckpoint visited last; D25: numbering restart over the stale frontier of the previous numbering skipped units; D26: journal gap made every start fail).",
    "note": "trusted: Lean kernel (propext, Classical.choice, Quot.sound only), target double, extractor, harness; models hand-written and tied by correspondence; the flush policy is a parameter of the model (FlushPolicy, any value), the run passes the code's values",
    "technique": "Lean 4 proof (fold invariants, transition-system invariant by induction over step lists) + differential correspondence over every request prefix (crash points) under virtual time",
}
