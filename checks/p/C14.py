PROP = {
    "lean_modules": ["GunYu.Model.Frontier"],
    "audit_namespaces": [],
    "required_theorems": [],
    "expected_facts": {},
    "harness": [
        {"name": "C14rebuild", "pkg": "./pkg/redis/checkpoint/", "test": "TestVerifC14Rebuild"},
        {"name": "C14", "pkg": "./syncer/", "test": "TestVerifC14"},
    ],
    "driver": "drv_C14",
    "rule": "TODO",
    "trusted": [],
    "assumptions": [],
}

MANIFEST = {
    "text": "TODO",
    "note": "TODO",
    "technique": "Lean 4 proof + differential correspondence over crash prefixes",
}
