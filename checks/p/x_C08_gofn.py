# session 5, gofn owner: definitions regenerated from /repo by the Go->Lean translator for C08
# (merged into PROPS["C08"] by checks/props.py; see reviews/gofn-s5.md)
EXTRA = {
    # c03 = the generator of Gen/Crc64Table.lean, which C08's model reads: its failure must be C08's broken tie too
    "gens": ["gofn_crc64", "c03", "gofn_rdbname"],
    "lean_modules": ["GunYu.Props.C08GenS5", "GunYu.Props.C08GenS5N"],
    "required_theorems": [
        "GunYu.Props.C08.gen_crc64_eq_model",
        "GunYu.Props.C08.gen_crc64_chunks",
        "GunYu.Props.C08.gen_parseRdbFile_rdbName",
        "GunYu.Props.C08.gen_parseRdbFile_tmpName",
        "GunYu.Props.C08.gen_parseRdbFile_other",
    ],
    "trusted": [
        "gofn (session 5): the translator's reading of digest.update and store.ParseRdbFile (Basic/GoSem.lean + "
        "Basic/GoSemS5.lean: byte() of a uint64, strings.HasSuffix / TrimSuffix / Split, strconv.ParseInt(s,10,64), a "
        "single-owner local `&RdbFile{}`); the real functions run in C08's correspondence harness on the same inputs",
    ],
}
