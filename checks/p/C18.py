KEY_FORMATS = {
    "BisyncCommitIndexKey": "%s:%s:index:{%s}",
    "BisyncCommitRecordKey": "%s:%s:commit:{%s}:%020d",
    "BisyncFrontierKey": "%s:frontier",
    "BisyncLatestCheckpointKey": "%s:%s:latest:{%s}",
    "BisyncMarkerKey": "%s:%s:marker:{%s}",
    "BisyncRdbRecordKey": "%s:%s:rdb:{%s}:%020d",
}

SLOT_TAG_INIT = ('{ remaining := redisClusterSlots for i := 0; remaining > 0; i++ { tag := fmt.Sprintf("slot-%x", i) '
                 'slot := redispkg.KeyToSlot("{" + tag + "}") if bisyncSlotTagsBySlot[slot] != "" { continue } '
                 'bisyncSlotTagsBySlot[slot] = tag bisyncSlotTagCache.Store(slot, tag) remaining-- } }')

CPNAME_BODY = ('{ buf := make([]byte, 12) if _, err := rand.Read(buf); err != nil { return "", err } '
               'return fmt.Sprintf("%s:%x", BisyncCheckpointKeyPrefix, buf), nil }')

PROP = {
    "lean_modules": ["GunYu.Props.C18", "GunYu.Props.C18Nodes", "GunYu.Props.C18Movable", "GunYu.Props.C18Gen"],
    "audit_namespaces": ["GunYu.Props.C18"],
    "required_theorems": [
        "GunYu.Props.C18.slotTag_hits_slot",
        "GunYu.Props.C18.unit_single_slot",
        "GunYu.Props.C18.unroutable_refused_before_send",
        "GunYu.Props.C18.same_slot_never_refused",
        "GunYu.Props.C18.client_revalidation_agrees",
        "GunYu.Props.C18.committed_txn_accepted",
        "GunYu.Props.C18.client_refusal_sends_nothing",
        "GunYu.Props.C18.committed_txn_node",
        "GunYu.Props.C18.same_slot_replayed",
        "GunYu.Props.C18.client_revalidation_agrees'",
        "GunYu.Props.C18.rdb_unit_single_slot",
        "GunYu.Props.C18.refused_txn_emits_nothing",
        "GunYu.Props.C18.rdb_unit_single_slot_built",
        "GunYu.Props.C18.raw_first_key_commands",
        "GunYu.Props.C18.raw_stream_commands",
        "GunYu.Props.C18.divergent_getkeys_single_slot",
        "GunYu.Props.C18.divergent_refusal_sends_nothing",
        "GunYu.Props.C18.consistent_nodes_every_view_single_slot",
        "GunYu.Props.C18.uniform_nodes_same_as_single",
        "GunYu.Props.C18.txn_flag_never_set",
        "GunYu.Props.C18.unit_single_slot_generated",
        "GunYu.Props.C18.sent_receiver_single_slot_or_nothing_applied",
        # session 5: Redis's own getkeys procs for the movablekeys commands vs the regenerated keyspec tables
        "GunYu.Props.C18.movable_numkeys_rows_match_redis",
        "GunYu.Props.C18.numkeys_extractor_exact",
        "GunYu.Props.C18.numkeys_extractor_complete",
        "GunYu.Props.C18.movable_numkeys_keys_exact",
        "GunYu.Props.C18.movable_numkeys_keys_complete",
        "GunYu.Props.C18.movable_numkeys_keys_exact_anycase",
        "GunYu.Props.C18.movable_unit_keys_redis_single_slot",
        "GunYu.Props.C18.geoScan_eq_geoLoop",
        "GunYu.Props.C18.geo_keys_exact",
        "GunYu.Props.C18.geo_keys_complete",
        "GunYu.Props.C18.geo_last_store_wins",
        "GunYu.Props.C18.geo_member_named_store_ok",
        "GunYu.Props.C18.sort_keys_exact",
        "GunYu.Props.C18.sort_last_store_wins",
        "GunYu.Props.C18.sort_dest_spelling_option_deferred",
        "GunYu.Props.C18.xread_group_named_streams",
        "GunYu.Props.C18.unlisted_movable_no_row",
        "GunYu.Props.C18.unlisted_movable_static_none",
        "GunYu.Props.C18.unlisted_movable_resolved_by_target",
        "GunYu.Props.C18.unlisted_movable_keys_on_slot",
        "GunYu.Props.C18.unlisted_movable_refused_without_answer",
        # session 5: the slot-grouping decision of buildBisyncReplayUnitWithMode REGENERATED from the source (Gen/FnBisyncUnitBuild.lean)
        "GunYu.Props.C18.gen_keyStep_eq_model",
        "GunYu.Props.C18.gen_keysLoop_eq_model",
        "GunYu.Props.C18.gen_cmdsLoop_eq_model",
        "GunYu.Props.C18.gen_initSt_eq_model",
        "GunYu.Props.C18.gen_buildUnit_eq_model",
    ],
    "gens": ["c18", "c10", "c13", "c18slot", "c18facts"],
    "expected_facts": {
        "bisync_key_formats": KEY_FORMATS,
        "bisync_slot_tag_format": "slot-%x",
        "bisync_slot_tag_init_body": SLOT_TAG_INIT,
        # the table is published by sync.Once before any caller reads it (seeded C18-r8-m1: CompareAndSwap instead of Once)
        "bisync_slot_tag_body": '{ if slot >= redisClusterSlots { panic(fmt.Sprintf("invalid redis cluster slot: %d", slot)) } if tag, ok := bisyncSlotTagCache.Load(slot); ok { return tag.(string) } bisyncSlotTagsOnce.Do(initBisyncSlotTags) tag := bisyncSlotTagsBySlot[slot] bisyncSlotTagCache.Store(slot, tag) return tag }',
        "bisync_cpname_body": CPNAME_BODY,
        # Cluster.transactionEnable is assigned in the MULTI / EXEC cases of chooseNodeWithCmdAndKeys and nowhere else
        "c18_txn_enable_sites": [
            'pkg/redis/client/cluster/cluster.go:chooseNodeWithCmdAndKeys:case "EXEC":cluster.transactionEnable = false',
            'pkg/redis/client/cluster/cluster.go:chooseNodeWithCmdAndKeys:case "MULTI":cluster.transactionEnable = true',
        ],
        # the command names the two unit-commit functions Put: literals and the unit's own commands (never MULTI / EXEC:
        # the parser consumes both, C13 emitted_units_safe; the snapshot object parsers emit data commands)
        "c18_unit_put_names": {"dispatchBisyncUnit": ['"set"', "cmd.Cmd", '"hset"', '"zadd"'], "execBisyncRdbUnit": ['"set"', "cmd.Cmd"]},
        # the only transaction batcher of the tool is the one these two functions use, and with bidirectional sync on the
        # plain replay path (the only code that Puts a literal MULTI / EXEC) is not reached
        "c13_txn_batcher_sites": ["syncer/bisync.go:newBisyncTxnBatcher:conn.NewTxnBatcher()"],
        "c13_aof_dispatch": ["if ro.bisyncEnabled() { return ro.sendAofBisync(ctx, runId, reader, offset, nsize) }", "guard-before-plain-path"],
        # session 5 (generator c18slot): what the translator of buildBisyncReplayUnitWithMode skipped or classified
        "c18_build_error_literals": ["empty replay unit", "resolve keys for command(%s) failed: %w", "command(%s) is not slot-routable in scheme1",
                                     "command(%s) has no routed keys in scheme1", "command(%s) is cross-slot: key(%s) slot(%d) != slot(%d)",
                                     "no business keys in replay unit"],
        "c18_build_unit_fields": ["Seq", "StartOffset", "EndOffset", "Slot", "SlotTag", "Digest", "SourceTxn", "Commands"],
        "c18_build_resolver_default": ["if resolver == nil { resolver = defaultBisyncCommandKeyResolver }"],
        # session 5 (generator c18facts): the resolver one parser run holds is a function of the command - it writes and indexes
        # nothing it keeps between two calls (seeded C18-r7-m1: a memo of key positions per name/arity); commandGetKeys asks ONE node
        "c18_resolver_closure_state": {"calls_of_the_resolver": ["filter.CommandKeys", "getConn", "resolveBisyncCommandKeys"],
                                       "declared_outside_the_resolver": ["conn", "connErr", "connOnce", "getConn"],
                                       "indexed_by_the_resolver": [], "written_by_the_resolver": []},
        # every package-level variable written after init() in the files the builder / the commit reach (key tables, slot functions,
        # control-key constructors, the cluster batcher): the slot-tag table and nothing else; its first use under concurrency: harness C18first
        "c18_process_globals": ["pkg/redis/checkpoint/bisync.go:bisyncSlotTagCache:BisyncSlotTag:.Store",
                                "pkg/redis/checkpoint/bisync.go:bisyncSlotTagCache:initBisyncSlotTags:.Store",
                                "pkg/redis/checkpoint/bisync.go:bisyncSlotTagsBySlot:initBisyncSlotTags:assigned",
                                "pkg/redis/checkpoint/bisync.go:bisyncSlotTagsOnce:BisyncSlotTag:.Do"],
        "c18_commandgetkeys_calls": {"calls": ["cluster.getRandomNode", "make", "len", "append", "append", "cluster.do", "common.Strings"],
                                     "loops_or_goroutines": 0},
    },
    "harness": [{"name": "C18", "pkg": "./syncer/", "test": "TestVerifC18"},
                # first use of the process-global slot-tag table by 8 goroutines at once, one fresh process per case (the test re-executes
                # its own binary); thorough tier: built with the race detector, a race reported by a child is a violation
                {"name": "C18first", "pkg": "./syncer/", "test": "TestVerifC18First", "go_flags_thorough": ["-race"]}],
    "driver": "drv_C18",
    "rule": "all 16384 slot tags (checkpoint.BisyncSlotTag vs regenerated table vs bitwise HASH_SLOT) and every control-key constructor on them; "
            "generated transactions of 1-4 commands over 31 command shapes written from the Redis command reference (SET/DEL/MSET/RENAME/"
            "ZUNIONSTORE numkeys/SORT..STORE/BITOP/EVAL/XGROUP/...), upper/lower-case names, keys in 16 brace arrangements around shared or "
            "mixed tags (empty tags, nested, unbalanced, non-UTF-8), unknown commands with 5 COMMAND-GETKEYS fall-back behaviours, malformed "
            "shapes, transactions reduced by the real key filter (DEL/UNLINK/MSET projection, dropped commands); each through "
            "buildBisyncReplayUnitWithMode (cluster + standalone mode), the real cluster txnBatcher.Put sequence (3 nodes, optional ownerless "
            "slots), and for accepted units execBisyncUnit (latest/journal) or execBisyncRdbUnit through the real batcher, node pipeline and "
            "TCP into node doubles that record every MULTI block. Monitors (independent bitwise CRC16 HASH_SLOT on generator-known key "
            "positions): accepted <=> determined & single-slot; unit slot = HASH_SLOT; exactly one MULTI block at the slot owner, marker "
            "first, every business/control key on the unit's slot; nothing sent after a refusal; builder and client agree. "
            "Second part (vf_c18_loop_test.go): streams of 2-6 judgeable transactions through the REAL parseAofReplayUnits + sendBisyncSync/Pipeline/Parallel "
            "(cluster config, real newBisyncCommandKeyResolver with its own COMMAND GETKEYS double, independent of the client's; also a directed case where the "
            "builder accepts and the client answers ErrCrossSlots) into node doubles that, like a cluster node, refuse at queue time what is not on their slots or "
            "spans slots (-MOVED/-CROSSSLOT, then -EXECABORT) — monitors: every block is exactly one source transaction of the accepted prefix, marker first, "
            "never split/merged, nothing sent at or after a refused transaction (other lanes excepted in parallel mode), the loop returns an error iff something "
            "must be refused, all accepted transactions arrive once; injected faults at the node (CROSSSLOT at queue time, error entry inside the EXEC array: replay "
            "must stop, nothing later sent; MOVED / ASK once: whole block re-sent to the named node, replay goes on); snapshot phase: buildBisyncRdbReplayUnit in "
            "cluster mode on string/hash/list/zset entries (split bins, keyExists replace/ignore, RESTORE or expanded, replace-hashtag on/off, 16 brace arrangements) "
            "-> execBisyncRdbUnit -> nodes (unit slot = HASH_SLOT(target key), every command on the target key, one block at the owner; the unit's command list diffed against the "
            "model rdbCommands per unit; the same for values of every type read by the REAL rdb.Loader and object parsers: streams with XSETID / XGROUP CREATE (key second) / XCLAIM, "
            "sets, modules, IDLETIME / FREQ, 4.x and 7.x targets); cluster-global lane "
            "(bisyncRdbGlobalTargets with shuffled ranges, execBisyncRdbGlobalUnit over direct connections: one block per primary, marker on a slot that primary serves). "
            "Also: the builder's introspection connection cannot be opened while the client's COMMAND GETKEYS works (fb_builder=connfail): a command outside the tables must stop "
            "the replay, nothing of it sent; snapshot values of 1-200 elements (units beyond 64 commands: one block all the same, no block without the marker). "
            "Nodes that answer COMMAND GETKEYS differently (vf_c18_nodes_test.go, 500 cases): three nodes each answering in its own way, the builder's iteration in a drawn order through the "
            "real resolveBisyncCommandKeys -> real builder -> real execBisyncUnit / execBisyncRdbUnit through the real cluster txnBatcher whose k-th query is answered by the k-th drawn node -> TCP "
            "node doubles that check the block they receive with THEIR OWN answer: outcome (none | sent … applied | sent … aborted by the receiving node, flag) vs Lean replayUnitN / nodeApplies / "
            "txnPutAllF (the driver evaluates those definitions themselves). Monitors as the statement: the builder's own view (keys the REAL resolver returned) and every consulted answer at an "
            "accepted Put on the unit's slot; refused before the wire => no request reached a node; refused by the receiving node => one block, refused whole, nothing else sent; applied => the "
            "receiving node's view single-slot; accept <=> determined and single-slot judged only where all nodes name the same keys. Tie level only (model diff, no-failing-input-found): "
            "WHICH answer the iteration settles on when nodes differ (first non-empty wins) and Cluster.transactionEnable after a commit. 200 Put sequences with literal MULTI / EXEC / SELECT vs txnPutAllF. "
            "Oracle shapes: 31 + 50 more written from the command reference (MSETEX numkeys key value…, FCALL_RO, CMS.MERGE / TDIGEST.MERGE, (SINTERSTORE/SDIFFSTORE, RENAMENX, GEOSEARCHSTORE, ZINTERSTORE/ZDIFFSTORE, "
            "GEORADIUSBYMEMBER..STOREDIST, LMPOP/ZMPOP/BLMPOP/BZMPOP, EVALSHA, FCALL, JSON.MSET, XREADGROUP, BRPOPLPUSH, BLMOVE, BRPOP, BZPOPMIN, 25 single-key commands), "
            "lower/upper/mixed-case names; corpus/C18 pins the D1 key and the two seeded-mutation inputs with their key positions. "
            "Session 5: (a) SEQUENCES through ONE instance of the real newBisyncCommandKeyResolver closure (vf_c18_s5_test.go: 300 sequences of 2-6 transactions over one "
            "command name and arity, directly through the real builder and 12 through the real parser + the three send loops; corpus/C18/seq pins the seeded r7 inputs), the target's "
            "COMMAND GETKEYS double answering by layouts whose key positions depend on the CONTENT of the arguments (fall-back kinds nk = dst numkeys key... [options], "
            "st = key ... STORE dst ..., last STORE wins; same kinds in the Lean driver): every unit judged on the REAL keys (single-slot-unit-refused / unit-accepted-not-single-slot "
            "/ unit-slot-differs-from-hash-slot) and diffed against the stateless model. (b) C18's OWN parse ops (op c18 parse, 600 streams): the real parseAofReplayUnits in cluster mode "
            "vs Bisync.parse, and model-independently: the emitted units are exactly the transactions before the first one that must be refused, each on its HASH_SLOT, nothing of "
            "the refused one or behind it (unit-emitted-at-or-after-refusal), an error iff something is refused. (c) half of the nodes cases run the REAL Cluster.commandGetKeys "
            "(getRandomNode + do over TCP; the node doubles answer COMMAND GETKEYS themselves, each in its own way, and record who was asked: the model's picks are the OBSERVED nodes; "
            "all three nodes are asked, in about half of the cases a node other than the receiving one). (d) six more oracle shapes written from Redis's getkeys procs for the movablekeys "
            "write commands (GEORADIUS / GEORADIUSBYMEMBER with COUNT / ASC before STORE|STOREDIST, SORT with BY nosort / LIMIT / GET # before STORE, ZINTERSTORE with WEIGHTS / AGGREGATE, "
            "EVAL / LMPOP with trailing arguments that look like keys); the forms on which the tool's extractor and Redis DISAGREED (store option twice, a member spelling an option word: finding C18-F1, "
            "repaired 975110c) are drawn by the general generator too and pinned as regression cases (corpus/C18/findings); 400 transactions with movablekeys commands the tables have no row for "
            "(ZUNION / ZINTER / ZDIFF / SINTERCARD / ZINTERCARD / EVAL_RO / EVALSHA_RO: resolved by the target's COMMAND GETKEYS = Redis's genericGetKeys, or refused). (e) a send-loop case is judged when every connection the run opened has been closed (= every lane worker / receiver / parser of it has exited), an explicit "
            "condition instead of a quiet window. "
            "Harness C18first (vf_c18_first_test.go, seeded C18-r8-m1): 12 fresh processes per quick run (60 thorough, built with -race), GOMAXPROCS 1/2/4/8; as the first thing the "
            "process does 8 goroutines released by one barrier ask for slot tags (checkpoint.BisyncSlotTag / the real builder on a key of a known slot); every answer checked: tag non-empty, "
            "HASH_SLOT({tag}) = slot, marker / latest / index / commit-record keys on the slot (monitor first-use-slot-tag, replay = child seed + GOMAXPROCS); each tag also an op c18 tag. "
            "Dimension audit (vf_c18_dim_test.go, forced cases, counters dim_* / cfg_*): 21 degenerate keys (the EMPTY key = slot 0, {}, {}x, {, }, a{b, }{a}, {a}{b}, {}{a}, {a, {{a}}, "
            "0x00, 0xff.., {0x00}, a 300-byte key, keys of slot 0 and 16383) each alone, twice in one command (DEL k k, RENAME k k, MSET k v k w), across commands and beside a key of another slot; "
            "two DIFFERENT tags of one slot; commands without arguments / without keys (EVAL .. 0); transactions whose FIRST / LAST command has no key; upper / mixed-case names AND subcommand "
            "/ option words (XGROUP create / CreateConsumer / SETID, SORT .. store, GEORADIUS .. Store, ZUNIONSTORE .. weights, XREADGROUP .. Streams) - all through replayOne (builder c+s, batcher, "
            "commit into the node doubles) and the real parser; a unit whose slot has no owner in the client's slot map at COMMIT time (refused, nothing sent); every degenerate key through the real "
            "buildBisyncRdbReplayUnit x replaceHashTag on/off x string/hash/list/zset x restore/expanded (336 units); lanes of the parallel mode drawn from 0 (ask the cluster, falls back to one) / "
            "1 / 2 / 3 / 16; keyExists = error drawn. "
            "distinct_nontrivial = distinct accepted single-slot transactions",
    "trusted": ["Redis Cluster HASH_SLOT as transcribed in Model/Slot.lean (C11)",
                "key positions of the 81 generator command shapes, written from the Redis command reference (harness oracle only)",
                "COMMAND GETKEYS on the target modelled as an arbitrary function (quantified in the theorems, 9 behaviours in the harness: none, error, empty, first, all, numkeys layout, STORE layout, Redis genericGetKeys with the count first / second)",
                "Model/RedisKeys.lean: transcription of Redis 7.0 src/db.c getkeys procs of the movablekeys commands (genericGetKeys and its instances, sortGetKeys, georadiusGetKeys, "
                "xreadGetKeys, migrateGetKeys), written from memory of the source (no Redis source in the sandbox); a count argument is read as digits only (anything else makes the real command fail)",
                "harness/extract/c18slot.go: the dedicated translator of buildBisyncReplayUnitWithMode's control skeleton (closed vocabulary, dies on anything else); error literals classified by substring"],
    "assumptions": ["CLOSED (was: the checkpoint name contains no '{'): unit_single_slot_generated takes a generated name (Bisync.GenCp: NewBisyncCheckpointName for ANY random bytes - modelled, "
                    "Model/BisyncNames.lean newCpName, tied by C13's op `c13 cpname` on the real function - or the two plain-path forms); that a name READ BACK from the checkpoint hash is generated "
                    "is C13 resolved_names_generated (all writers of the hash modelled, source facts c13_cphash_writes / c13_localcheckpoint), given a hash that held generated names before",
                    "commit order and txnBatcher models tied by correspondence; control-key constructors, marker TTL and the slot-tag table regenerated from source; the BUILDER's slot-grouping "
                    "decision (initial state from forceSlot, the three resolver guards in source order, first key fixes the slot / compare / refuse, keysSeen, the final guard, Slot / SlotTag / "
                    "Commands of the result) is REGENERATED from syncer/bisync.go on every run (Gen/FnBisyncUnitBuild.lean, locals resolved by definition not spelling) and proved equal to the "
                    "hand model for all inputs (gen_buildUnit_eq_model): an edit of a guard breaks the proof, a renamed local or else{if} changes nothing; skipped by the translator and pinned as "
                    "facts: the nil-resolver default, the error literals, the other fields of the result",
                    "slotTag_hits_slot / unit_single_slot speak of the TABLE; that every caller of BisyncSlotTag reads the finished table (the build is published by sync.Once before any "
                    "read) is not modelled: it is exercised by harness C18first (first use by 8 goroutines in fresh processes, under -race in the thorough tier) and pinned by the source facts "
                    "bisync_slot_tag_body / bisync_slot_tag_init_body",
                    "the resolver of one parser run is a function of the command: source fact c18_resolver_closure_state (what the closure newBisyncCommandKeyResolver returns declares outside "
                    "itself, writes, indexes and calls) + sequences through one instance; the cluster client's commandGetKeys asks exactly one node per query: source fact c18_commandgetkeys_calls + "
                    "the real function run against the node doubles",
                    "client_revalidation_agrees is stated for commands chooseNodeWithCmdAndKeys routes by key spec (not PING/CLUSTER/INFO/SELECT/MGET/MSET/MSETNX/MULTI/EXEC; "
                    "MSET/MSETNX are covered by the correspondence ops) and a slot map covering all slots",
                    "CLOSED (was: cluster.transactionEnable outside the model): modelled (Model/ClusterNodes.lean chooseNodeF / txnPutF: set by a literal MULTI, cleared by EXEC, consulted "
                    "in the default branch only, kept when the batcher's own check then refuses the command - found by the tie) and txn_flag_never_set proves that a unit's commit "
                    "transaction never toggles it and behaves like the flag-less model; source facts c18_txn_enable_sites (the two assignments), c18_unit_put_names, c13_txn_batcher_sites, "
                    "c13_aof_dispatch; op c18 flag (real batcher with literal MULTI / EXEC / SELECT mixed in) and the monitor cluster-transaction-flag-set after every unit commit. Still "
                    "assumed: the Cluster object a bisync connection uses is its own (ro.NewRedisConn per loop) - nobody else puts MULTI on it",
                    "CLOSED (was: the builder's COMMAND GETKEYS and the cluster client's assumed to answer alike): divergent_getkeys_single_slot / divergent_refusal_sends_nothing hold for "
                    "ARBITRARY per-node answers (keys, nothing, errors), any visiting order of the builder's iteration and any node per client query: sent => single-slot in every consulted "
                    "view, marker first, one block; refused => nothing sent. The agreement / never-refused theorems still need the two to answer alike (uniform_nodes_same_as_single reduces "
                    "uniform nodes to them). The RECEIVING node (owner of the unit's slot, in general not a consulted one - the client asks getRandomNode, never the node it sends to) is "
                    "modelled: nodeBlockOk / nodeApplies = TRUSTED transcription of Redis Cluster's own check of a MULTI block (unknown command, keys on two slots or off the block's slot, slot not "
                    "served => queue-time error, EXECABORT, nothing applied); sent_receiver_single_slot_or_nothing_applied proves: every key the receiving node extracts is on the unit's slot and "
                    "it applies the whole block, OR it applies nothing. Exercised: the node doubles of the nodes cases check blocks with THEIR OWN answer (about 20 receiver refusals per quick run: "
                    "one block, refused whole, commit fails, nothing outside MULTI, no second attempt - monitor best-effort-after-node-refusal); consistent_nodes_every_view_single_slot excludes "
                    "the refusal when answering nodes agree",
                    "unit_single_slot is relative to the key positions the resolver names (regenerated keyspec tables / COMMAND GETKEYS). NARROWED in session 5: for the 11 numkeys rows of the "
                    "regenerated extractor table (eval, evalsha, fcall, fcall_ro, zunionstore, zinterstore, zdiffstore, zmpop, bzmpop, lmpop, blmpop) movable_numkeys_keys_exact / _complete prove "
                    "that the tool's positions ARE the positions Redis's genericGetKeys instance names (same members, both directions, all argument lists, any letter case), and "
                    "movable_unit_keys_redis_single_slot transfers unit_single_slot to the keys REDIS names; GEORADIUS* (after repair 975110c): geo_keys_exact / "
                    "geo_keys_complete - the tool's positions are Redis's for ALL argument lists; SORT: sort_keys_exact - whenever the tool's extractor answers, its positions are Redis's (it declines "
                    "for BY / GET patterns that bring in other keys, a destination spelling an option word, no STORE: then Redis itself is asked). "
                    "REFUTED where false: xread_group_named_streams (XREADGROUP with a group or consumer literally named `streams`: the tool names the consumer and the word STREAMS; not reachable from a "
                    "replication stream, Redis propagates XREADGROUP as XCLAIM / XGROUP SETID). For the fixed first/last/step rows and the other "
                    "extractors the positions stay tied by the 87 independently written oracle shapes and by C10, not proved",
                    "`replayUnit … = none` / `wire … = error` (unroutable_refused_before_send 2nd conjunct, client_refusal_sends_nothing) restate how the model composes builder "
                    "and client; that the CODE sends nothing is what refused_txn_emits_nothing (parser model, tied by C13's parse ops) and the loop monitors establish",
                    "CMS.MERGE / TDIGEST.MERGE: the oracle names the DESTINATION as the only key, as the modules declare it (first=last=1) and as COMMAND GETKEYS and a cluster "
                    "node's slot check see it; sources on other slots are not found by the module on that node — a matter of the module's semantics, not of routing",
                    "slot-map holes (a slot without a known owner) refuse a single-slot unit at the client: outside the statements (Covered), exercised only by the txn ops",
                    "in parallel mode a unit the CLIENT refuses fails on its lane while later units of other slots may already have been dispatched on theirs (observed, counted "
                    "as loop_parallel_lane_overtake): the property speaks of the refused transaction itself, of which nothing is sent",
                    "the send-loop cases run in real time (TCP node doubles): a run ends when the loop returns or when the nodes hold every block a correct run delivers "
                    "(blocks are matched to their case by the run id in the marker, so a lane worker of an earlier case cannot pollute a later one or take its armed fault); "
                    "a case is JUDGED when every connection the run opened has been closed (counted loop_run_joined_all_connections_closed: all 120 of a quick run) - the loops close a "
                    "connection only after the goroutines using it have exited and a node records a block before it answers EXEC, so everything the run can send has been recorded; "
                    "a run that reaches neither condition in 20 s is retried once and only judged if it stalls again (counted loop_stalled_retry / loop_stalled_twice); a run whose "
                    "connections are not all closed within the limit falls back to a quiet window and is counted (loop_run_not_joined; never seen)"],
    "partial": ["CLOSED (was: rdb_unit_single_slot assumes hk): rdb_unit_single_slot_built takes the command list buildBisyncRdbReplayUnit assembles — modelled (rdbCommands: "
                "RESTORE form with IDLETIME/FREQ (target >= 5, non-zero) and REPLACE iff keyExists=replace; expanded form = the object parser's commands with names lower-cased and the "
                "source key rewritten to the target key at the static tables' key positions (rewriteBisyncRdbCommandKeys), `del <target>` prefix iff first bin and keyExists=replace, "
                "`pexpire <target> ttl` suffix) and tied by a correspondence op per snapshot unit (c18 rdbcmds: real unit.Commands vs model, ttl/dump canonicalised) that is fed "
                "with what the REAL pkg/rdb object parsers hand over for generated values of every type the builder produces (string, list, set, zset, hash, stream with entries / "
                "XSETID / a consumer group with pending entry and consumer, module; read by the real rdb.Loader, also with small bins) as well as by a scripted parser for units "
                "of 65-200 commands — and proves every key the shared static tables name in the unit (what the cluster client's re-validation and a node see; the builder itself calls "
                "no resolver) and every control key on the target key's slot. What is left is a hypothesis on the OBJECT PARSER's output only (RawOn: each command names, by the static "
                "tables, key positions that all hold the entry's key and do not move under the rewriting); it is proved for everything pkg/rdb emits for keyed values: the first-key "
                "class (raw_first_key_commands: set/hset/rpush/sadd/zadd/xadd, also as emitted in upper case) and streams (raw_stream_commands: XADD, XSETID, XCLAIM, XGROUP CREATE with "
                "the key SECOND); module values take the RESTORE form or fail; that the emitted commands ARE on the entry's key is observed per unit by the monitor rdb-command-off-target-key "
                "with key positions written from the command reference (cross-checked with the tool's tables: rdb-key-positions-differ), not proved about pkg/rdb (C20 / C03)",
                "useRestore is an input of the op (the real bisyncRdbUseRestore decides it; C20 models that decision); argument formatting of non-byte values (float scores) is the tool's own",
                "CLOSED (was: refused_txn_emits_nothing tied by C13's parse ops only): C18 runs its own parse ops (op c18 parse: the real parseAofReplayUnits in cluster mode, its own resolver "
                "closure, 8 fall-back kinds, transactions and wrapped singles vs Bisync.parse evaluated by drv_C18) and judges 'nothing of a refused transaction or behind it is emitted' "
                "on the real parser independently of the model; no key filter / db blacklist in these streams (C13's ops cover those)",
                "CLOSED (was: a late block of a lane worker dropped by run id, judged only inside a settle window): a case is judged after every connection of the run has been closed "
                "(explicit join, see assumptions); real time, not synctest - the TCP node doubles cannot live in a bubble - but no verdict depends on a window any more; late blocks of an "
                "earlier case would still be counted (loop_late_blocks_of_earlier_case: 0 in every run)",
                "CLOSED (was: KNOWN FINDING C18-F1): keyspec's GEORADIUS* / SORT extractors now name the keys Redis's getkeys procs name (/repo 975110c, one `fix:` commit after the C10 owner "
                "had finished; unedited suite passes): last STORE / STOREDIST, option words only behind the fixed arguments, LIMIT's arguments stepped over, a SORT destination spelling an option "
                "word left to COMMAND GETKEYS. Model/Filter.lean geoLoop / sortLoop re-transcribed, Proofs/FilterKeys re-proved (every C10 theorem still proved), six golden rows in C10's oracle; "
                "the refutations became geo_keys_exact / geo_keys_complete / sort_keys_exact (all argument lists); the former witnesses run as regression cases (corpus/C18/findings) and the general "
                "generator draws those forms",
                "Model/RedisKeys.lean covers the movablekeys commands only. Rows the tool's table has: proved equal (numkeys family, GEORADIUS*, SORT) or refuted (XREADGROUP with a group named "
                "`streams`). NO row (eval_ro / evalsha_ro, zunion / zinter / zdiff, sintercard / zintercard, xread, migrate, sort_ro): unlisted_movable_* prove over the regenerated tables that the static "
                "tables never answer for them, that the resolver's verdict is the target's COMMAND GETKEYS answer, and that a built unit has every key the target named on its slot - refused when the "
                "target names none; 400 cases per quick run (fall-backs n0 / n1 = Redis's genericGetKeys written independently in Go vs Model/RedisKeys.genericGetKeys in the driver; about half accepted, "
                "a third not routable, the rest cross-slot). xread / migrate / sort_ro have no harness case (read-only or never propagated); msetex (Redis 8, step 2) has no Redis-side transcription",
                "the extractor BODIES (numkeysStepExtractor, sortExtractor, geoRadiusStoreExtractor, streamsExtractor, CommandKeyIndexes) are hand-transcribed in Model/Filter.lean and tied by "
                "C10's correspondence ops and C18's builder ops, not regenerated: gofn lacks strings.EqualFold / ToLower, closures returned from functions and a for-loop whose body advances "
                "the loop variable (requested from the coordinator)",
                "unit-accepted-undetermined (a command for which the resolver names NO key inside an otherwise single-slot transaction must be refused) is exercised with a custom "
                "resolver only: the tool's own resolver never answers 'ok, no keys' (tables name >= 1 key or decline; an empty COMMAND GETKEYS answer is 'not routable')",
                "a plain EOF that sendAofBisync reports as nil is counted (loop_eof_reported_as_nil), not judged: the property needs an error REPORTED when a unit is refused "
                "(refusal-did-not-stop-replay), not a particular value for the end of the stream",
                "./check C18 --replay FILE re-runs the one loop case / snapshot unit / command list (build + txn + replay ops, 24 draws of commit kind and slot-map hole) the file "
                "describes (a nodes case: the nodes' answers, visiting order and draws of the file, 6 draws of the commit kind); files of the table and wiring checks (slot tags, control keys, "
                "names) carry no input and re-run the whole suite",
                "nodes cases: half run the REAL commandGetKeys (getRandomNode + do over TCP, the node asked observed at the doubles and fed to the model as its pick), half the hook "
                "commandGetKeysFn with drawn picks (so that pick sequences getRandomNode's generator does not produce are covered too); that exactly ONE node is asked is now the source fact "
                "c18_commandgetkeys_calls and the monitor tie-shape:more-getkeys-queries-than-commands; the builder side runs the real resolveBisyncCommandKeys over an introspector double "
                "(the real Cluster.IterateNodes visits a Go map: any order, the model quantifies over the order); node kinds: keys = first argument / all arguments, none, empty reply, error reply, "
                "undecodable reply; a nil (null array) reply is not a node kind (rediscommon.Strings answers ErrNil: an error, like the error reply)"],
}

MANIFEST = {
    "text": "Lean theorems over ALL command lists and ALL key resolvers: a unit built in cluster mode has every business key and every control key "
            "(marker, latest/commit record, index; constructors and the 16384-entry slot-tag table regenerated from source, table checked entry by entry "
            "in the kernel) on one HASH_SLOT; undetermined keys or two slots => error and no request; routable single-slot lists are never refused; the "
            "cluster client's txnBatcher accepts exactly what the builder accepts and the committed transaction goes out as one MULTI block; with nodes that answer COMMAND GETKEYS "
            "differently or with errors (any answers, any visiting order, any node per query) a unit is still sent only if it is single-slot in every view that was consulted and refused before "
            "anything is on the wire otherwise; the cluster client's transaction flag is modelled and never set by the bidirectional path; for the numkeys commands Redis flags movablekeys the tool's key positions are "
            "proved to be the positions Redis's own getkeys procs name (transcribed), so the unit is single-slot in REDIS's keys; the builder's slot-grouping decision is regenerated from the "
            "source and proved equal to the model. Tied to the "
            "code by differential correspondence and by an end-to-end run through the real batcher/TCP into slot-recording node doubles with an "
            "independent bitwise HASH_SLOT oracle.",
    "note": "trusted: Lean kernel, HASH_SLOT transcription (C11), extractor, harness oracle's command shapes; hand-written models tied by correspondence",
    "technique": "Lean 4 proof (loop invariants as iff-characterisations, kernel evaluation of the regenerated tag table via a proved Nat mirror of CRC16) + differential correspondence + end-to-end monitor",
}
