KEY_FORMATS = {
    "BisyncCommitIndexKey": "%s:%s:index:{%s}",
    "BisyncCommitRecordKey": "%s:%s:commit:{%s}:%020d",
    "BisyncFrontierKey": "%s:frontier",
    "BisyncLatestCheckpointKey": "%s:%s:latest:{%s}",
    "BisyncMarkerKey": "%s:%s:marker:{%s}",
    "BisyncRdbRecordKey": "%s:%s:rdb:{%s}:%020d",
}

SLOT_TAG_INIT = ('{ remaining := redisClusterSlots for i := 0; remaining > 0; i++ { tag := fmt.Sprintf("slot-%x", i) '
                 'slot := redispkg.KeyToSlot("{" + tag + "}") if bisyncSlotTagsBySlot[slot] != "" { continue } '
                 'bisyncSlotTagsBySlot[slot] = tag bisyncSlotTagCache.Store(slot, tag) remaining-- } }')

CPNAME_BODY = ('{ buf := make([]byte, 12) if _, err := rand.Read(buf); err != nil { return "", err } '
               'return fmt.Sprintf("%s:%x", BisyncCheckpointKeyPrefix, buf), nil }')

PROP = {
    "lean_modules": ["GunYu.Props.C18", "GunYu.Props.C18Nodes"],
    "audit_namespaces": ["GunYu.Props.C18"],
    "required_theorems": [
        "GunYu.Props.C18.slotTag_hits_slot",
        "GunYu.Props.C18.unit_single_slot",
        "GunYu.Props.C18.unroutable_refused_before_send",
        "GunYu.Props.C18.same_slot_never_refused",
        "GunYu.Props.C18.client_revalidation_agrees",
        "GunYu.Props.C18.committed_txn_accepted",
        "GunYu.Props.C18.client_refusal_sends_nothing",
        "GunYu.Props.C18.committed_txn_node",
        "GunYu.Props.C18.same_slot_replayed",
        "GunYu.Props.C18.client_revalidation_agrees'",
        "GunYu.Props.C18.rdb_unit_single_slot",
        "GunYu.Props.C18.refused_txn_emits_nothing",
        "GunYu.Props.C18.rdb_unit_single_slot_built",
        "GunYu.Props.C18.raw_first_key_commands",
        "GunYu.Props.C18.raw_stream_commands",
        "GunYu.Props.C18.divergent_getkeys_single_slot",
        "GunYu.Props.C18.divergent_refusal_sends_nothing",
        "GunYu.Props.C18.consistent_nodes_every_view_single_slot",
        "GunYu.Props.C18.uniform_nodes_same_as_single",
        "GunYu.Props.C18.txn_flag_never_set",
        "GunYu.Props.C18.unit_single_slot_generated",
        "GunYu.Props.C18.sent_receiver_single_slot_or_nothing_applied",
    ],
    "gens": ["c18", "c10", "c13"],
    "expected_facts": {
        "bisync_key_formats": KEY_FORMATS,
        "bisync_slot_tag_format": "slot-%x",
        "bisync_slot_tag_init_body": SLOT_TAG_INIT,
        "bisync_cpname_body": CPNAME_BODY,
        # Cluster.transactionEnable is assigned in the MULTI / EXEC cases of chooseNodeWithCmdAndKeys and nowhere else
        "c18_txn_enable_sites": [
            'pkg/redis/client/cluster/cluster.go:chooseNodeWithCmdAndKeys:case "EXEC":cluster.transactionEnable = false',
            'pkg/redis/client/cluster/cluster.go:chooseNodeWithCmdAndKeys:case "MULTI":cluster.transactionEnable = true',
        ],
        # the command names the two unit-commit functions Put: literals and the unit's own commands (never MULTI / EXEC:
        # the parser consumes both, C13 emitted_units_safe; the snapshot object parsers emit data commands)
        "c18_unit_put_names": {"dispatchBisyncUnit": ['"set"', "cmd.Cmd", '"hset"', '"zadd"'], "execBisyncRdbUnit": ['"set"', "cmd.Cmd"]},
        # the only transaction batcher of the tool is the one these two functions use, and with bidirectional sync on the
        # plain replay path (the only code that Puts a literal MULTI / EXEC) is not reached
        "c13_txn_batcher_sites": ["syncer/bisync.go:newBisyncTxnBatcher:conn.NewTxnBatcher()"],
        "c13_aof_dispatch": ["if ro.bisyncEnabled() { return ro.sendAofBisync(ctx, runId, reader, offset, nsize) }", "guard-before-plain-path"],
    },
    "harness": [{"name": "C18", "pkg": "./syncer/", "test": "TestVerifC18"}],
    "driver": "drv_C18",
    "rule": "all 16384 slot tags (checkpoint.BisyncSlotTag vs regenerated table vs bitwise HASH_SLOT) and every control-key constructor on them; "
            "generated transactions of 1-4 commands over 31 command shapes written from the Redis command reference (SET/DEL/MSET/RENAME/"
            "ZUNIONSTORE numkeys/SORT..STORE/BITOP/EVAL/XGROUP/...), upper/lower-case names, keys in 16 brace arrangements around shared or "
            "mixed tags (empty tags, nested, unbalanced, non-UTF-8), unknown commands with 5 COMMAND-GETKEYS fall-back behaviours, malformed "
            "shapes, transactions reduced by the real key filter (DEL/UNLINK/MSET projection, dropped commands); each through "
            "buildBisyncReplayUnitWithMode (cluster + standalone mode), the real cluster txnBatcher.Put sequence (3 nodes, optional ownerless "
            "slots), and for accepted units execBisyncUnit (latest/journal) or execBisyncRdbUnit through the real batcher, node pipeline and "
            "TCP into node doubles that record every MULTI block. Monitors (independent bitwise CRC16 HASH_SLOT on generator-known key "
            "positions): accepted <=> determined & single-slot; unit slot = HASH_SLOT; exactly one MULTI block at the slot owner, marker "
            "first, every business/control key on the unit's slot; nothing sent after a refusal; builder and client agree. "
            "Second part (vf_c18_loop_test.go): streams of 2-6 judgeable transactions through the REAL parseAofReplayUnits + sendBisyncSync/Pipeline/Parallel "
            "(cluster config, real newBisyncCommandKeyResolver with its own COMMAND GETKEYS double, independent of the client's; also a directed case where the "
            "builder accepts and the client answers ErrCrossSlots) into node doubles that, like a cluster node, refuse at queue time what is not on their slots or "
            "spans slots (-MOVED/-CROSSSLOT, then -EXECABORT) — monitors: every block is exactly one source transaction of the accepted prefix, marker first, "
            "never split/merged, nothing sent at or after a refused transaction (other lanes excepted in parallel mode), the loop returns an error iff something "
            "must be refused, all accepted transactions arrive once; injected faults at the node (CROSSSLOT at queue time, error entry inside the EXEC array: replay "
            "must stop, nothing later sent; MOVED / ASK once: whole block re-sent to the named node, replay goes on); snapshot phase: buildBisyncRdbReplayUnit in "
            "cluster mode on string/hash/list/zset entries (split bins, keyExists replace/ignore, RESTORE or expanded, replace-hashtag on/off, 16 brace arrangements) "
            "-> execBisyncRdbUnit -> nodes (unit slot = HASH_SLOT(target key), every command on the target key, one block at the owner; the unit's command list diffed against the "
            "model rdbCommands per unit; the same for values of every type read by the REAL rdb.Loader and object parsers: streams with XSETID / XGROUP CREATE (key second) / XCLAIM, "
            "sets, modules, IDLETIME / FREQ, 4.x and 7.x targets); cluster-global lane "
            "(bisyncRdbGlobalTargets with shuffled ranges, execBisyncRdbGlobalUnit over direct connections: one block per primary, marker on a slot that primary serves). "
            "Also: the builder's introspection connection cannot be opened while the client's COMMAND GETKEYS works (fb_builder=connfail): a command outside the tables must stop "
            "the replay, nothing of it sent; snapshot values of 1-200 elements (units beyond 64 commands: one block all the same, no block without the marker). "
            "Nodes that answer COMMAND GETKEYS differently (vf_c18_nodes_test.go, 500 cases): three nodes each answering in its own way, the builder's iteration in a drawn order through the "
            "real resolveBisyncCommandKeys -> real builder -> real execBisyncUnit / execBisyncRdbUnit through the real cluster txnBatcher whose k-th query is answered by the k-th drawn node -> TCP "
            "node doubles that check the block they receive with THEIR OWN answer: outcome (none | sent … applied | sent … aborted by the receiving node, flag) vs Lean replayUnitN / nodeApplies / "
            "txnPutAllF (the driver evaluates those definitions themselves). Monitors as the statement: the builder's own view (keys the REAL resolver returned) and every consulted answer at an "
            "accepted Put on the unit's slot; refused before the wire => no request reached a node; refused by the receiving node => one block, refused whole, nothing else sent; applied => the "
            "receiving node's view single-slot; accept <=> determined and single-slot judged only where all nodes name the same keys. Tie level only (model diff, no-failing-input-found): "
            "WHICH answer the iteration settles on when nodes differ (first non-empty wins) and Cluster.transactionEnable after a commit. 200 Put sequences with literal MULTI / EXEC / SELECT vs txnPutAllF. "
            "Oracle shapes: 31 + 50 more written from the command reference (MSETEX numkeys key value…, FCALL_RO, CMS.MERGE / TDIGEST.MERGE, (SINTERSTORE/SDIFFSTORE, RENAMENX, GEOSEARCHSTORE, ZINTERSTORE/ZDIFFSTORE, "
            "GEORADIUSBYMEMBER..STOREDIST, LMPOP/ZMPOP/BLMPOP/BZMPOP, EVALSHA, FCALL, JSON.MSET, XREADGROUP, BRPOPLPUSH, BLMOVE, BRPOP, BZPOPMIN, 25 single-key commands), "
            "lower/upper/mixed-case names; corpus/C18 pins the D1 key and the two seeded-mutation inputs with their key positions. "
            "distinct_nontrivial = distinct accepted single-slot transactions",
    "trusted": ["Redis Cluster HASH_SLOT as transcribed in Model/Slot.lean (C11)",
                "key positions of the 81 generator command shapes, written from the Redis command reference (harness oracle only)",
                "COMMAND GETKEYS on the target modelled as an arbitrary function (quantified in the theorems, 5 behaviours in the harness)"],
    "assumptions": ["CLOSED (was: the checkpoint name contains no '{'): unit_single_slot_generated takes a generated name (Bisync.GenCp: NewBisyncCheckpointName for ANY random bytes - modelled, "
                    "Model/BisyncNames.lean newCpName, tied by C13's op `c13 cpname` on the real function - or the two plain-path forms); that a name READ BACK from the checkpoint hash is generated "
                    "is C13 resolved_names_generated (all writers of the hash modelled, source facts c13_cphash_writes / c13_localcheckpoint), given a hash that held generated names before",
                    "builder, commit order and txnBatcher models tied by correspondence; control-key constructors, marker TTL and the slot-tag table regenerated from source",
                    "client_revalidation_agrees is stated for commands chooseNodeWithCmdAndKeys routes by key spec (not PING/CLUSTER/INFO/SELECT/MGET/MSET/MSETNX/MULTI/EXEC; "
                    "MSET/MSETNX are covered by the correspondence ops) and a slot map covering all slots",
                    "CLOSED (was: cluster.transactionEnable outside the model): modelled (Model/ClusterNodes.lean chooseNodeF / txnPutF: set by a literal MULTI, cleared by EXEC, consulted "
                    "in the default branch only, kept when the batcher's own check then refuses the command - found by the tie) and txn_flag_never_set proves that a unit's commit "
                    "transaction never toggles it and behaves like the flag-less model; source facts c18_txn_enable_sites (the two assignments), c18_unit_put_names, c13_txn_batcher_sites, "
                    "c13_aof_dispatch; op c18 flag (real batcher with literal MULTI / EXEC / SELECT mixed in) and the monitor cluster-transaction-flag-set after every unit commit. Still "
                    "assumed: the Cluster object a bisync connection uses is its own (ro.NewRedisConn per loop) - nobody else puts MULTI on it",
                    "CLOSED (was: the builder's COMMAND GETKEYS and the cluster client's assumed to answer alike): divergent_getkeys_single_slot / divergent_refusal_sends_nothing hold for "
                    "ARBITRARY per-node answers (keys, nothing, errors), any visiting order of the builder's iteration and any node per client query: sent => single-slot in every consulted "
                    "view, marker first, one block; refused => nothing sent. The agreement / never-refused theorems still need the two to answer alike (uniform_nodes_same_as_single reduces "
                    "uniform nodes to them). The RECEIVING node (owner of the unit's slot, in general not a consulted one - the client asks getRandomNode, never the node it sends to) is "
                    "modelled: nodeBlockOk / nodeApplies = TRUSTED transcription of Redis Cluster's own check of a MULTI block (unknown command, keys on two slots or off the block's slot, slot not "
                    "served => queue-time error, EXECABORT, nothing applied); sent_receiver_single_slot_or_nothing_applied proves: every key the receiving node extracts is on the unit's slot and "
                    "it applies the whole block, OR it applies nothing. Exercised: the node doubles of the nodes cases check blocks with THEIR OWN answer (about 20 receiver refusals per quick run: "
                    "one block, refused whole, commit fails, nothing outside MULTI, no second attempt - monitor best-effort-after-node-refusal); consistent_nodes_every_view_single_slot excludes "
                    "the refusal when answering nodes agree",
                    "unit_single_slot is relative to the key positions the resolver names (regenerated keyspec tables / COMMAND GETKEYS); that those are Redis's positions is "
                    "tied by the 81 independently written shapes of the harness oracle and by C10, not proved",
                    "`replayUnit … = none` / `wire … = error` (unroutable_refused_before_send 2nd conjunct, client_refusal_sends_nothing) restate how the model composes builder "
                    "and client; that the CODE sends nothing is what refused_txn_emits_nothing (parser model, tied by C13's parse ops) and the loop monitors establish",
                    "CMS.MERGE / TDIGEST.MERGE: the oracle names the DESTINATION as the only key, as the modules declare it (first=last=1) and as COMMAND GETKEYS and a cluster "
                    "node's slot check see it; sources on other slots are not found by the module on that node — a matter of the module's semantics, not of routing",
                    "slot-map holes (a slot without a known owner) refuse a single-slot unit at the client: outside the statements (Covered), exercised only by the txn ops",
                    "in parallel mode a unit the CLIENT refuses fails on its lane while later units of other slots may already have been dispatched on theirs (observed, counted "
                    "as loop_parallel_lane_overtake): the property speaks of the refused transaction itself, of which nothing is sent",
                    "the send-loop cases run in real time (TCP node doubles): a run ends when the loop returns or when the nodes hold every block a correct run delivers "
                    "(blocks are matched to their case by the run id in the marker, so a lane worker of an earlier case cannot pollute a later one or take its armed fault); "
                    "no monitor depends on a block being absent at a point in time except after that explicit wait; a run that reaches neither condition in 20 s is retried once "
                    "and only judged if it stalls again (counted loop_stalled_retry / loop_stalled_twice)"],
    "partial": ["CLOSED (was: rdb_unit_single_slot assumes hk): rdb_unit_single_slot_built takes the command list buildBisyncRdbReplayUnit assembles — modelled (rdbCommands: "
                "RESTORE form with IDLETIME/FREQ (target >= 5, non-zero) and REPLACE iff keyExists=replace; expanded form = the object parser's commands with names lower-cased and the "
                "source key rewritten to the target key at the static tables' key positions (rewriteBisyncRdbCommandKeys), `del <target>` prefix iff first bin and keyExists=replace, "
                "`pexpire <target> ttl` suffix) and tied by a correspondence op per snapshot unit (c18 rdbcmds: real unit.Commands vs model, ttl/dump canonicalised) that is fed "
                "with what the REAL pkg/rdb object parsers hand over for generated values of every type the builder produces (string, list, set, zset, hash, stream with entries / "
                "XSETID / a consumer group with pending entry and consumer, module; read by the real rdb.Loader, also with small bins) as well as by a scripted parser for units "
                "of 65-200 commands — and proves every key the shared static tables name in the unit (what the cluster client's re-validation and a node see; the builder itself calls "
                "no resolver) and every control key on the target key's slot. What is left is a hypothesis on the OBJECT PARSER's output only (RawOn: each command names, by the static "
                "tables, key positions that all hold the entry's key and do not move under the rewriting); it is proved for everything pkg/rdb emits for keyed values: the first-key "
                "class (raw_first_key_commands: set/hset/rpush/sadd/zadd/xadd, also as emitted in upper case) and streams (raw_stream_commands: XADD, XSETID, XCLAIM, XGROUP CREATE with "
                "the key SECOND); module values take the RESTORE form or fail; that the emitted commands ARE on the entry's key is observed per unit by the monitor rdb-command-off-target-key "
                "with key positions written from the command reference (cross-checked with the tool's tables: rdb-key-positions-differ), not proved about pkg/rdb (C20 / C03)",
                "useRestore is an input of the op (the real bisyncRdbUseRestore decides it; C20 models that decision); argument formatting of non-byte values (float scores) is the tool's own",
                "refused_txn_emits_nothing is a statement about the parser MODEL (Bisync.parse); the model is tied to parseAofReplayUnits by C13's parse ops (cluster mode "
                "included), not by C18's own harness: C18's 'refusal emits nothing' rests on C13 passing too, plus the loop monitors here",
                "a late block of a lane worker (parallel mode) that lands after the case's settle window is dropped by run id and cannot be judged (sent-after-refusal for a slow "
                "lane is timing-dependent in the safe direction); such blocks are counted (loop_late_blocks_of_earlier_case) so that a change that merely delays a forbidden block shows in the evidence",
                "unit-accepted-undetermined (a command for which the resolver names NO key inside an otherwise single-slot transaction must be refused) is exercised with a custom "
                "resolver only: the tool's own resolver never answers 'ok, no keys' (tables name >= 1 key or decline; an empty COMMAND GETKEYS answer is 'not routable')",
                "a plain EOF that sendAofBisync reports as nil is counted (loop_eof_reported_as_nil), not judged: the property needs an error REPORTED when a unit is refused "
                "(refusal-did-not-stop-replay), not a particular value for the end of the stream",
                "./check C18 --replay FILE re-runs the one loop case / snapshot unit / command list (build + txn + replay ops, 24 draws of commit kind and slot-map hole) the file "
                "describes (a nodes case: the nodes' answers, visiting order and draws of the file, 6 draws of the commit kind); files of the table and wiring checks (slot tags, control keys, "
                "names) carry no input and re-run the whole suite",
                "nodes cases: the cluster client's COMMAND GETKEYS is the harness hook commandGetKeysFn answering per drawn node (the real commandGetKeys = getRandomNode + do is not run; that it "
                "asks ONE node is read from the code); the builder side runs the real resolveBisyncCommandKeys over an introspector double (the real Cluster.IterateNodes visits a Go map: any order, "
                "the model quantifies over the order); node kinds: keys = first argument / all arguments, none, empty reply, error reply, undecodable reply"],
}

MANIFEST = {
    "text": "Lean theorems over ALL command lists and ALL key resolvers: a unit built in cluster mode has every business key and every control key "
            "(marker, latest/commit record, index; constructors and the 16384-entry slot-tag table regenerated from source, table checked entry by entry "
            "in the kernel) on one HASH_SLOT; undetermined keys or two slots => error and no request; routable single-slot lists are never refused; the "
            "cluster client's txnBatcher accepts exactly what the builder accepts and the committed transaction goes out as one MULTI block; with nodes that answer COMMAND GETKEYS "
            "differently or with errors (any answers, any visiting order, any node per query) a unit is still sent only if it is single-slot in every view that was consulted and refused before "
            "anything is on the wire otherwise; the cluster client's transaction flag is modelled and never set by the bidirectional path. Tied to the "
            "code by differential correspondence and by an end-to-end run through the real batcher/TCP into slot-recording node doubles with an "
            "independent bitwise HASH_SLOT oracle.",
    "note": "trusted: Lean kernel, HASH_SLOT transcription (C11), extractor, harness oracle's command shapes; hand-written models tied by correspondence",
    "technique": "Lean 4 proof (loop invariants as iff-characterisations, kernel evaluation of the regenerated tag table via a proved Nat mirror of CRC16) + differential correspondence + end-to-end monitor",
}
