KEY_FORMATS = {
    "BisyncCommitIndexKey": "%s:%s:index:{%s}",
    "BisyncCommitRecordKey": "%s:%s:commit:{%s}:%020d",
    "BisyncFrontierKey": "%s:frontier",
    "BisyncLatestCheckpointKey": "%s:%s:latest:{%s}",
    "BisyncMarkerKey": "%s:%s:marker:{%s}",
    "BisyncRdbRecordKey": "%s:%s:rdb:{%s}:%020d",
}

SLOT_TAG_INIT = ('{ remaining := redisClusterSlots for i := 0; remaining > 0; i++ { tag := fmt.Sprintf("slot-%x", i) '
                 'slot := redispkg.KeyToSlot("{" + tag + "}") if bisyncSlotTagsBySlot[slot] != "" { continue } '
                 'bisyncSlotTagsBySlot[slot] = tag bisyncSlotTagCache.Store(slot, tag) remaining-- } }')

CPNAME_BODY = ('{ buf := make([]byte, 12) if _, err := rand.Read(buf); err != nil { return "", err } '
               'return fmt.Sprintf("%s:%x", BisyncCheckpointKeyPrefix, buf), nil }')

PROP = {
    "lean_modules": ["GunYu.Props.C18"],
    "audit_namespaces": ["GunYu.Props.C18"],
    "required_theorems": [
        "GunYu.Props.C18.slotTag_hits_slot",
        "GunYu.Props.C18.unit_single_slot",
        "GunYu.Props.C18.unroutable_refused_before_send",
        "GunYu.Props.C18.same_slot_never_refused",
        "GunYu.Props.C18.client_revalidation_agrees",
        "GunYu.Props.C18.committed_txn_accepted",
        "GunYu.Props.C18.client_refusal_sends_nothing",
    ],
    "gens": ["c18", "c10"],
    "expected_facts": {
        "bisync_key_formats": KEY_FORMATS,
        "bisync_slot_tag_format": "slot-%x",
        "bisync_slot_tag_init_body": SLOT_TAG_INIT,
        "bisync_cpname_body": CPNAME_BODY,
    },
    "harness": [{"name": "C18", "pkg": "./syncer/", "test": "TestVerifC18"}],
    "driver": "drv_C18",
    "rule": "all 16384 slot tags (checkpoint.BisyncSlotTag vs regenerated table vs bitwise HASH_SLOT) and every control-key constructor on them; "
            "generated transactions of 1-4 commands over 31 command shapes written from the Redis command reference (SET/DEL/MSET/RENAME/"
            "ZUNIONSTORE numkeys/SORT..STORE/BITOP/EVAL/XGROUP/...), upper/lower-case names, keys in 16 brace arrangements around shared or "
            "mixed tags (empty tags, nested, unbalanced, non-UTF-8), unknown commands with 5 COMMAND-GETKEYS fall-back behaviours, malformed "
            "shapes, transactions reduced by the real key filter (DEL/UNLINK/MSET projection, dropped commands); each through "
            "buildBisyncReplayUnitWithMode (cluster + standalone mode), the real cluster txnBatcher.Put sequence (3 nodes, optional ownerless "
            "slots), and for accepted units execBisyncUnit (latest/journal) or execBisyncRdbUnit through the real batcher, node pipeline and "
            "TCP into node doubles that record every MULTI block. Monitors (independent bitwise CRC16 HASH_SLOT on generator-known key "
            "positions): accepted <=> determined & single-slot; unit slot = HASH_SLOT; exactly one MULTI block at the slot owner, marker "
            "first, every business/control key on the unit's slot; nothing sent after a refusal; builder and client agree. "
            "distinct_nontrivial = distinct accepted single-slot transactions",
    "trusted": ["Redis Cluster HASH_SLOT as transcribed in Model/Slot.lean (C11)",
                "key positions of the 31 generator command shapes, written from the Redis command reference (harness oracle only)",
                "COMMAND GETKEYS on the target modelled as an arbitrary function (quantified in the theorems, 5 behaviours in the harness)"],
    "assumptions": ["the checkpoint name contains no '{' (NewBisyncCheckpointName: prefix + ':' + hex; its body is compared with expectation and 200 generated names are checked)",
                    "builder, commit order and txnBatcher models tied by correspondence; control-key constructors, marker TTL and the slot-tag table regenerated from source",
                    "client_revalidation_agrees is stated for commands chooseNodeWithCmdAndKeys routes by key spec (not PING/CLUSTER/INFO/SELECT/MGET/MSET/MSETNX/MULTI/EXEC; "
                    "MSET/MSETNX are covered by the correspondence ops) and a slot map covering all slots",
                    "cluster.transactionEnable (set only by putting a literal MULTI) is outside the model; the bisync path never puts MULTI/EXEC"],
    "partial": [],
}

MANIFEST = {
    "text": "Lean theorems over ALL command lists and ALL key resolvers: a unit built in cluster mode has every business key and every control key "
            "(marker, latest/commit record, index; constructors and the 16384-entry slot-tag table regenerated from source, table checked entry by entry "
            "in the kernel) on one HASH_SLOT; undetermined keys or two slots => error and no request; routable single-slot lists are never refused; the "
            "cluster client's txnBatcher accepts exactly what the builder accepts and the committed transaction goes out as one MULTI block. Tied to the "
            "code by differential correspondence and by an end-to-end run through the real batcher/TCP into slot-recording node doubles with an "
            "independent bitwise HASH_SLOT oracle.",
    "note": "trusted: Lean kernel, HASH_SLOT transcription (C11), extractor, harness oracle's command shapes; hand-written models tied by correspondence",
    "technique": "Lean 4 proof (loop invariants as iff-characterisations, kernel evaluation of the regenerated tag table via a proved Nat mirror of CRC16) + differential correspondence + end-to-end monitor",
}
