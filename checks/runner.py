"""Per-property check pipeline (see /verif/check and DESIGN.md §8)."""
import glob, json, os, re, subprocess, sys, time

from props import PROPS, COMMON_TRUSTED


def load_known(root):
    """known_findings.json (merged, committed) plus known_findings.d/*.json
    (per-property fragments). Never written at run time."""
    k = {"findings": [], "fixed": []}
    paths = [os.path.join(root, "known_findings.json")] + sorted(glob.glob(os.path.join(root, "known_findings.d", "*.json")))
    for p in paths:
        if not os.path.exists(p):
            continue
        d = json.load(open(p))
        for f in d.get("findings", []):
            if f not in k["findings"]:
                k["findings"].append(f)
        for f in d.get("fixed", []):
            if f not in k["fixed"]:
                k["fixed"].append(f)
    return k


def match_known(known, prop, viol):
    """A finding is identified by property + `what` + (optionally) a witness
    predicate over the replay (all listed key/values must match)."""
    for f in known.get("findings", []):
        if f["property"] != prop or f["what"] != viol["what"]:
            continue
        w = f.get("witness", {})
        if all(str(viol.get("replay", {}).get(k)) == str(v) for k, v in w.items()):
            return f
    return None


def check(prop, tier, replay, C):
    # two checks of the SAME property from the same tree share build/out/<ID> and evidence/<ID>.json:
    # they run one after the other (different properties still run in parallel)
    with C.Lock(f"check_{prop}.lock"):
        return _check(prop, tier, replay, C)


def _check(prop, tier, replay, C):
    t0 = time.time()
    if prop not in PROPS:
        print(f"unknown property {prop}")
        return 2
    P = PROPS[prop]
    ROOT, LEAN, BUILD, REPO = C.ROOT, C.LEAN, C.BUILD, C.REPO
    seed = int(os.environ.get("VERIF_SEED", "1") or "1")
    outdir = os.path.join(BUILD, "out", prop)
    os.makedirs(outdir, exist_ok=True)
    for f in glob.glob(os.path.join(outdir, "*")):
        if os.path.isfile(f):
            os.remove(f)
    os.makedirs(os.path.join(ROOT, "evidence"), exist_ok=True)
    os.makedirs(os.path.join(ROOT, "replays"), exist_ok=True)

    broken = []          # (kind, name, detail): proof obligations / ties that no longer check
    obligations = []     # theorem names
    axioms_seen = {}

    # ------------------------------------------------------------ 1. extract + build
    with C.Lock("lake.lock"):
        rc, out = C.run([C.GO, "build", "-o", os.path.join(BUILD, "extract"), "."],
                        cwd=os.path.join(ROOT, "harness", "extract"), env=C.GOENV, quiet=True)
        if rc:
            broken.append(("infra", "extractor build", out[-2000:]))
        rc, out = C.run([os.path.join(BUILD, "extract"), "-repo", REPO,
                         "-out", os.path.join(LEAN, "GunYu", "Gen"),
                         "-facts", os.path.join(outdir, "facts.json")])
        if rc:
            broken.append(("tie", "extractor", out[-2000:]))
        # ------------------------------------------------------------ 2. proofs
        mods = P["lean_modules"]
        rc, out = C.run(["lake", "build"] + mods + ["GunYu.Audit.Tool", P["driver"]], cwd=LEAN)
        build_ok = rc == 0
        if rc:
            # name the failing declarations
            errs = re.findall(r"error: (\S+?\.lean):(\d+):\d+: (.*)", out)
            names = []
            for f, ln, msg in errs[:20]:
                names.append(f"{f}:{ln}: {msg[:200]}")
            broken.append(("proof", "lake build " + " ".join(mods), "\n".join(names) or out[-3000:]))
        # forbidden tokens
        for m in C.lean_sources(mods + ["Driver." + P["driver"][4:]]):
            p = os.path.join(LEAN, *m.split(".")) + ".lean"
            if not os.path.exists(p):
                continue
            src = C.strip_comments(open(p).read())
            for i, l in enumerate(src.splitlines(), 1):
                if C.FORBIDDEN.search(l):
                    broken.append(("proof", f"forbidden token in {m}:{i}", l.strip()))
        # axiom audit
        if build_ok:
            for ns in P["audit_namespaces"]:
                af = os.path.join(outdir, "audit_" + ns.replace(".", "_") + ".lean")
                with open(af, "w") as fh:
                    fh.write("import GunYu.Audit.Tool\n")
                    for m in mods:
                        fh.write(f"import {m}\n")
                    fh.write(f"#audit_ns {ns}\n")
                rc, out = C.run(["lake", "env", "lean", af], cwd=LEAN)
                if rc:
                    broken.append(("proof", f"audit {ns}", out[-2000:]))
                for l in out.splitlines():
                    mm = re.search(r"AUDIT (\S+) : (.*)", l)
                    if mm:
                        name, axs = mm.group(1), mm.group(2).split()
                        obligations.append(name)
                        axs = [] if axs == ["none"] else axs
                        axioms_seen[name] = axs
                        bad = [x for x in axs if x not in C.ALLOWED_AXIOMS]
                        if bad:
                            broken.append(("proof", f"axioms of {name}", " ".join(bad)))
            for req in P.get("required_theorems", []):
                if req not in obligations:
                    broken.append(("proof", f"missing theorem {req}", "required property theorem not found"))
            if tier == "thorough":
                for m in P.get("leanchecker_modules", mods):
                    rc, out = C.run(["lake", "env", "leanchecker", m], cwd=LEAN)
                    if rc:
                        broken.append(("proof", f"leanchecker {m}", out[-2000:]))
    discharged = len(obligations) if build_ok else 0

    # ------------------------------------------------------------ facts expectations
    facts = {}
    try:
        facts = json.load(open(os.path.join(outdir, "facts.json")))
    except Exception:
        pass
    my_gens = set(P.get("gens", [])) | {prop.lower(), "extra"}
    for g, msg in (facts.get("gen_errors") or {}).items():
        if g in my_gens:
            broken.append(("tie", f"generator {g} could not translate the source", msg))
    for key, want in P.get("expected_facts", {}).items():
        got = facts.get(key)
        if got != want:
            broken.append(("tie", f"source fact {key}", f"expected {want!r} got {got!r}"))

    # ------------------------------------------------------------ 3. harness on the real code
    overlay = C.write_overlay()
    env = dict(C.GOENV, VERIF_OUT=outdir, VERIF_SEED=str(seed), VERIF_TIER=tier)
    if replay:
        env["VERIF_REPLAY"] = os.path.abspath(replay)
    summaries = []
    total_ops = 0
    diffs = []
    for h in P["harness"]:
        name = h["name"]
        cmd = [C.GO, "test", "-modfile", C.modfile(os.path.join(outdir, "gomod")),
               "-overlay", overlay, "-tags", "verif", "-vet=off", "-count=1",
               "-timeout", h.get("timeout_" + tier, "20m"), "-run", "^" + h["test"] + "$"] + \
              h.get("go_flags", []) + h.get("go_flags_" + tier, []) + [h["pkg"]]
        sp = os.path.join(outdir, name + ".summary.json")
        rc, out = C.run(cmd, cwd=REPO, env=env)
        if rc != 0 and not os.path.exists(sp):
            # the harness process died before writing its summary (compiler killed under memory
            # pressure, a transient toolchain error): one more attempt before calling the tie broken
            C.log(f"harness {name} died without a summary (rc={rc}); retrying once")
            rc, out = C.run(cmd, cwd=REPO, env=env)
        if rc != 0 and not os.path.exists(sp):
            tail = "\n".join(l for l in out.splitlines() if '"level"' not in l)[-3000:]
            broken.append(("tie", f"harness {name} failed to run (rc={rc})", tail))
            continue
        if rc != 0:
            tail = "\n".join(l for l in out.splitlines() if '"level"' not in l)[-3000:]
            broken.append(("tie", f"harness {name} exited rc={rc}", tail))
        if not os.path.exists(sp):
            # the test ran (rc=0) but wrote no summary: wrong -run pattern, a skipped test
            broken.append(("tie", f"harness {name} wrote no summary (rc={rc})", out[-2000:]))
            continue
        sm = json.load(open(sp))
        summaries.append(sm)
        total_ops += sm["ops"]
        # ---------------------------------------------------------- 4. model on the same ops
        ops = os.path.join(outdir, name + ".ops")
        impl = os.path.join(outdir, name + ".impl")
        model = os.path.join(outdir, name + ".model")
        drv = os.path.join(LEAN, ".lake", "build", "bin", P["driver"])
        if os.path.exists(drv) and os.path.exists(ops):
            with open(ops) as fi, open(model, "w") as fo:
                t1 = time.time()
                p = subprocess.run([drv], stdin=fi, stdout=fo, stderr=subprocess.PIPE, text=True)
                C.log(f"[{time.time()-t1:6.1f}s rc={p.returncode}] driver < {name}.ops")
                if p.returncode:
                    broken.append(("tie", f"driver crashed on {name}.ops", p.stderr[-1000:]))
            d = first_diff(ops, impl, model, h.get("lines_per_op"))
            if d:
                diffs.append((name, d))
        else:
            broken.append(("tie", "driver missing", drv))

    # ------------------------------------------------------------ 5. verdict
    known = load_known(ROOT)
    rc_final = 0
    viol_count = 0
    lines = []
    reported = set()
    all_viol = [v for sm in summaries for v in sm["violations"]]
    vp = P.get("violation_prefix")
    if vp:
        all_viol = [v for v in all_viol if v["what"].startswith(vp)]
    for v in all_viol:
        kf = match_known(known, prop, v)
        if kf:
            key = ("known", kf["id"])
            if key not in reported:
                reported.add(key)
                lines.append(f"KNOWN-FINDING: property={prop} {kf['id']}: {kf['summary']}")
            continue
        key = ("viol", v["what"])
        if key in reported:
            continue
        reported.add(key)
        viol_count += 1
        rp = os.path.join(ROOT, "replays", f"{prop}-{seed}-{len(reported)}.json")
        json.dump({"property": prop, "kind": "failing-input", "what": v["what"], "detail": v["detail"],
                   "replay": v["replay"], "seed": seed, "tier": tier}, open(rp, "w"), indent=1)
        lines.append(f"VIOLATION property={prop} replay={rp}")
        rc_final = 1
    if (broken or diffs) and rc_final == 0:
        # proof/correspondence broken: the monitor above already searched the real
        # code (corpus + generated inputs). If it found something not known, it was
        # reported. Otherwise: report with no-failing-input-found.
        unknown_found = any(k[0] == "viol" for k in reported)
        if not unknown_found:
            rp = os.path.join(ROOT, "replays", f"{prop}-{seed}-unproved.json")
            json.dump({"property": prop, "kind": "no-failing-input-found",
                       "broken": [{"kind": k, "name": n, "detail": d} for k, n, d in broken],
                       "correspondence_diffs": [{"harness": n, **d} for n, d in diffs],
                       "searched": {"ops": total_ops, "seed": seed, "tier": tier}}, open(rp, "w"), indent=1)
            lines.append(f"VIOLATION property={prop} replay={rp} no-failing-input-found")
            rc_final = 1
            viol_count += 1
    for k, n, d in broken:
        C.log(f"BROKEN [{k}] {n}\n    " + d.replace("\n", "\n    ")[:3000])
    for n, d in diffs:
        C.log(f"DIFF [{n}] op#{d['op_index']}: {d['op'][:300]}\n   impl : {d['impl']}\n   model: {d['model']}")

    # ------------------------------------------------------------ evidence
    stats = {}
    samples = []
    distinct = 0
    for sm in summaries:
        for k, v in sm["stats"].items():
            stats[k] = stats.get(k, 0) + v
        samples += (sm.get("samples") or [])[:3]
        distinct += sm["distinct_nontrivial"]
    ev = {
        "property_id": prop, "tier": tier, "seed": seed, "level": P.get("level", "proof"),
        "coverage": {
            "obligations": max(len(obligations), 1) if build_ok else max(len(P.get("required_theorems", [])), 1),
            "discharged": discharged,
            "checker_cmd": f"cd /verif/lean && lake build {' '.join(P['lean_modules'])} && lake env lean <audit:#audit_ns {' '.join(P['audit_namespaces'])}>"
                           + (" && lake env leanchecker <modules>" if tier == "thorough" else ""),
            "trusted_base": COMMON_TRUSTED + P.get("trusted", []),
            "theorems": [{"name": n, "axioms": axioms_seen.get(n, [])} for n in obligations],
            "evaluations": total_ops,
            "distinct_nontrivial": distinct,
            "traces_validated_against_impl": total_ops - (1 if diffs else 0),
            "rule": P.get("rule", ""),
            "samples": samples or ["(harness did not run)"],
            "input_distribution": stats,
            "correspondence_diffs": len(diffs),
            "broken": [f"{k}: {n}" for k, n, _ in broken],
            "partial": P.get("partial", []),
            "explanation": P.get("explanation", ""),
        },
        "assumptions": P.get("assumptions", []),
        "wall_s": round(time.time() - t0, 2),
        "violations": viol_count,
    }
    tmp = os.path.join(ROOT, "evidence", prop + ".json.tmp")
    json.dump(ev, open(tmp, "w"), indent=1)
    os.replace(tmp, os.path.join(ROOT, "evidence", prop + ".json"))
    for l in lines:
        print(l)
    if rc_final == 0:
        print(f"OK property={prop} tier={tier} theorems={len(obligations)} ops={total_ops} wall={ev['wall_s']}s")
    sys.stdout.flush()
    return rc_final


def first_diff(ops, impl, model, lines_per_op=None):
    """Compare implementation and model outputs. Ops emit a variable number of
    lines; outputs are aligned by position. Returns the first difference."""
    with open(impl) as f:
        il = f.read().splitlines()
    with open(model) as f:
        ml = f.read().splitlines()
    if il == ml:
        return None
    n = min(len(il), len(ml))
    idx = next((i for i in range(n) if il[i] != ml[i]), n)
    # find the op this line belongs to: ops that produce exactly one line map
    # 1:1; otherwise outputs carry "#<opindex>" prefixes the harness adds.
    op = ""
    op_index = idx
    with open(ops) as f:
        ol = f.read().splitlines()
    tag = None
    for src in (il, ml):
        if idx < len(src):
            mm = re.match(r"#(\d+) ", src[idx])
            if mm:
                tag = int(mm.group(1))
                break
    if tag is not None and tag < len(ol):
        op_index, op = tag, ol[tag]
    elif idx < len(ol) and len(ol) == len(il):
        op = ol[idx]
    return {"op_index": op_index, "op": op[:4000],
            "impl": il[idx][:2000] if idx < len(il) else "<missing>",
            "model": ml[idx][:2000] if idx < len(ml) else "<missing>",
            "impl_lines": len(il), "model_lines": len(ml)}
