#!/usr/bin/env python3
"""Regenerates /verif/MANIFEST.json from checks/props.py (run after editing props)."""
import json, os, sys
sys.path.insert(0, os.path.dirname(os.path.abspath(__file__)))
from props import PROPS, NOT_APPLICABLE, MANIFEST_TEXT

ROOT = os.path.dirname(os.path.dirname(os.path.abspath(__file__)))
ids = [json.loads(l)["id"] for l in open(os.path.join(ROOT, "properties.jsonl"))]
checks = []
for pid in ids:
    if pid not in PROPS:
        continue
    t = MANIFEST_TEXT[pid]
    checks.append({
        "property_id": pid,
        "quick_cmd": f"./check {pid} --tier quick",
        "thorough_cmd": f"./check {pid} --tier thorough",
        "evidence_file": f"/verif/evidence/{pid}.json",
        "replay_cmd_template": f"./check {pid} --replay {{path}}",
        "engine": "lean4-proof+correspondence",
        "level_claimed": {"category": PROPS[pid].get("level", "proof"), "text": t["text"], "design_ref": t.get("design_ref", "DESIGN.md §5 " + pid)},
        "level_note": t["note"],
        "technique": t["technique"],
    })
na = [{"property_id": p, "reason": r} for p, r in NOT_APPLICABLE.items() if p not in PROPS]
for pid in ids:
    if pid not in PROPS and pid not in NOT_APPLICABLE:
        na.append({"property_id": pid, "reason": "not yet built: model/theorems/tie for this property are not committed yet (see DESIGN.md §9 build order)"})
m = {
    "version": 1,
    "setup_cmd": "./check setup",
    "hooks": {
        "guard": "verif",
        "enable": "go1.26 test -overlay /verif/build/overlay.json -tags verif (all hooks live under /verif/harness/overlay and are injected virtually; nothing is added to /repo)",
        "baseline_off_cmd": "cd /repo && GOFLAGS=-mod=mod GOPROXY=off GOSUMDB=off go test -vet=off -count=1 ./...",
        "source_commits": [],
        "add_only": True,
    },
    "engines": [{
        "name": "lean4-proof+correspondence",
        "path": "/verif/check",
        "serves_properties": [c["property_id"] for c in checks],
        "kind_free_text": "Lean 4 theorems over executable models (lake build + axiom audit), models tied to /repo by a go/ast extractor (regenerated tables) and by differential correspondence: real Go code in-process vs the compiled Lean driver on the same generated inputs",
    }],
    "checks": checks,
    "not_applicable": na,
    "notes": "fix: commits in /repo are recorded in /verif/known_findings.json; see DESIGN.md",
}
json.dump(m, open(os.path.join(ROOT, "MANIFEST.json"), "w"), indent=1)
print("checks:", len(checks), "not_applicable:", len(na))
