#!/bin/bash
# sweep.sh <tier> <lanes> <seed...>   - soundness sweep on the unchanged tree.
# Runs ./check setup if build/ is missing (a `vp run` snapshot has no build output), then every
# property's check for every given seed, <lanes> checks at a time. Prints one line per run and
# keeps the output of every run that is not OK under sweep_out/.
TIER=$1; LANES=$2; shift 2
cd "$(dirname "$0")/.."
[ -d build ] || ./check setup > sweep_setup.log 2>&1 || { echo "SETUP FAILED"; tail -20 sweep_setup.log; exit 2; }
mkdir -p sweep_out
jobs_list=$(for s in "$@"; do for i in 01 02 03 04 05 06 07 08 09 10 11 12 13 14 15 16 17 18 19 20; do echo "$s C$i"; done; done)
echo "$jobs_list" | xargs -P $LANES -L 1 sh -c '
  s=$0; id=$1; o=sweep_out/${id}_s${s}.txt
  t0=$(date +%s); VERIF_SEED=$s ./check $id --tier '$TIER' > $o 2>&1; rc=$?; t1=$(date +%s)
  v=$(grep -c "^VIOLATION" $o)
  echo "seed=$s $id rc=$rc violations=$v wall=$((t1-t0))s"
  if [ $rc -eq 0 ] && [ $v -eq 0 ]; then rm -f $o; fi'
echo SWEEP-DONE
