#!/usr/bin/env python3
"""Merges known_findings.d/*.json into known_findings.json (the committed
known-findings file the checks read; never written at check run time)."""
import glob, json, os
root = os.path.dirname(os.path.dirname(os.path.abspath(__file__)))
out = {"_comment": "findings = genuine defects recorded and not repaired (each suppresses exactly its witness); fixed = repaired by a fix: commit in /repo (suppresses nothing). Merged from known_findings.d/*.json by tools/mergefindings.py.",
       "findings": [], "fixed": []}
seen = set()
# the fragments are the source of truth: an entry removed or reworded in its fragment disappears from the merged file
for p in sorted(glob.glob(os.path.join(root, "known_findings.d", "*.json"))):
    if not os.path.exists(p):
        continue
    d = json.load(open(p))
    for f in d.get("findings", []):
        k = json.dumps(f, sort_keys=True)
        if k not in seen:
            seen.add(k); out["findings"].append(f)
    for f in d.get("fixed", []):
        if f not in seen:
            seen.add(f); out["fixed"].append(f)
json.dump(out, open(os.path.join(root, "known_findings.json"), "w"), indent=1)
print(len(out["findings"]), "findings;", len(out["fixed"]), "fixed")
for f in out["fixed"]:
    print(" ", f[:170])
for f in out["findings"]:
    print("  FINDING", f["property"], f["id"], f["what"])
