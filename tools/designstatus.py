#!/usr/bin/env python3
"""Rewrites DESIGN.md §10.7 (per-property status as built) from checks/p/*.py and evidence/*.json."""
import glob, importlib.util, json, os
root = os.path.dirname(os.path.dirname(os.path.abspath(__file__)))
import sys
sys.path.insert(0, os.path.join(root, "checks"))
import props as _props
out = ["### 10.7 Per-property status as built (generated from checks/p/*.py and evidence/*.json by tools/designstatus.py)", ""]
for p in sorted(glob.glob(os.path.join(root, "checks", "p", "C*.py"))):
    pid = os.path.basename(p)[:-3]
    P, M = _props.PROPS[pid], _props.MANIFEST_TEXT[pid]   # merged with the extension files checks/p/x_<ID>_*.py
    ev = {}
    try:
        ev = json.load(open(os.path.join(root, "evidence", pid + ".json")))
    except Exception:
        pass
    def find(d, keys):
        for k in keys:
            if isinstance(d, dict) and k in d: return d[k]
        return None
    cov = ev.get("coverage", ev) if isinstance(ev, dict) else {}
    nthm = len(P.get("required_theorems", []))
    line = f"**{pid}** — {nthm} required property theorems (all theorems of the namespace are axiom-audited). {M.get('text','')}"
    out.append(line)
    out.append(f"  *Technique:* {M.get('technique','')}")
    if P.get("partial"):
        out.append("  *Partial / not proved:* " + "; ".join(P["partial"]))
    if P.get("assumptions"):
        out.append("  *Assumes:* " + "; ".join(P["assumptions"]))
    if P.get("trusted"):
        out.append("  *Trusted:* " + "; ".join(P["trusted"]))
    out.append("")
dp = os.path.join(root, "DESIGN.md")
s = open(dp).read()
i = s.index("### 10.7 Per-property status as built")
j = s.find("\n## ", i)
s = s[:i] + "\n".join(out) + ("\n" + s[j:] if j >= 0 else "\n")
open(dp, "w").write(s)
print("DESIGN.md §10.7 rewritten for", len(glob.glob(os.path.join(root, "checks", "p", "C*.py"))), "properties")
