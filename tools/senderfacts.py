#!/usr/bin/env python3
"""Refreshes the expectation of the source fact `sender_src` (digests of the functions the replay-core
model transcribes) in checks/p/C01.py, C02.py, C07.py, C09.py from /repo's CURRENT source. Run it only
after re-reading the changed functions against lean/GunYu/Model/Sender.lean (that review is what the
expectation records)."""
import json, os, re, subprocess, sys, tempfile
root = os.path.dirname(os.path.dirname(os.path.abspath(__file__)))
repo = os.environ.get("VERIF_REPO", "/repo")
env = dict(os.environ, GOFLAGS="-mod=mod", GOPROXY="off", GOSUMDB="off", GOTOOLCHAIN="local")
exe = os.path.join(root, "build", "extract_sf")
subprocess.check_call(["go", "build", "-o", exe, "."], cwd=os.path.join(root, "harness", "extract"), env=env)
with tempfile.TemporaryDirectory() as td:
    subprocess.check_call([exe, "-repo", repo, "-out", os.path.join(td, "gen"), "-facts", os.path.join(td, "f.json")])
    facts = json.load(open(os.path.join(td, "f.json")))
want = facts["sender_src"]
lit = json.dumps(want, indent=8, sort_keys=True)
# C07 additionally pins the other writers of the position (Model/PositionWriters.lean); the closing
# brace of the first dictionary must not be followed by a newline (the pattern below ends at "},\n")
lit7 = json.dumps(facts["position_writers_src"], indent=8, sort_keys=True)
# process-global state of the transcribed files (dimension audit): compact literal, no newline inside
litg = json.dumps(facts["sender_globals"], sort_keys=True)
for pid in ["C01", "C02", "C07", "C09"]:
    p = os.path.join(root, "checks", "p", pid + ".py")
    s = open(p).read()
    new = '"expected_facts": {"sender_src": ' + lit + ', "sender_globals": ' + litg + '},'
    if pid == "C07":
        new = '"expected_facts": {"sender_src": ' + lit + ', "position_writers_src": ' + lit7 + ', "sender_globals": ' + litg + '},'
    s2, n = re.subn(r'"expected_facts": \{.*?\},\n', new + "\n", s, count=1, flags=re.S)
    if n != 1:
        sys.exit(f"{p}: expected_facts not found")
    if '"gens": ["c10"]' in s2:
        s2 = s2.replace('"gens": ["c10"]', '"gens": ["c10", "c01"]')
    open(p, "w").write(s2)
    print("updated", p)
