#!/bin/bash
# seedregress.sh [P] : re-run every kept seeded mutation against the CURRENT machinery.
# For each /verif/seeded/<dir>: scratch worktree of /repo HEAD, apply patch.diff, run
# ./check <property> from a private copy of /verif; a mutation is "caught" when the check
# exits non-zero with a VIOLATION line. Prints one line per mutation and a summary.
# Scratch lives under /tmp/seedreg and is removed; nothing is written to /repo or /verif.
P=${1:-3}
export GOFLAGS=-mod=mod GOPROXY=off GOSUMDB=off GOTOOLCHAIN=local
mkdir -p /tmp/seedreg
one() {
  d=$1; name=$(basename $d)
  prop=$(python3 -c "import json;print(json.load(open('$d/meta.json'))['property'])")
  WT=/tmp/seedreg/wt_$name; VC=/tmp/seedreg/v_$name
  git -C /repo worktree add -q --detach $WT HEAD 2>/dev/null || { echo "$name SETUP-FAILED"; return; }
  if ! ( cd $WT && git apply $d/patch.diff 2>/dev/null ); then
    echo "$name prop=$prop PATCH-DOES-NOT-APPLY"; git -C /repo worktree remove --force $WT; return
  fi
  rsync -a --exclude .git --exclude 'build/out' --exclude replays /verif/ $VC/
  ( cd $VC && VERIF_REPO=$WT ./check $prop > /tmp/seedreg/$name.txt 2>&1 ); rc=$?
  line=$(grep -E '^(VIOLATION|OK)' /tmp/seedreg/$name.txt | head -1 | cut -c1-160)
  echo "$name prop=$prop rc=$rc $line"
  git -C /repo worktree remove --force $WT; rm -rf $VC
}
export -f one
ls -d /verif/seeded/*/ | sed 's:/$::' | xargs -P $P -I{} bash -c 'one {}'
