#!/bin/bash
# seedtest.sh <PROP_ID> <mutation dir with patch.diff, demo/, meta.json> [check ids...]
# Validates a seeded mutation in a scratch worktree of /repo and runs the given
# checks (default: the property itself) against that worktree from a private copy
# of /verif, so neither /repo nor the live /verif build is disturbed.
set -u
ID=$1; MDIR=$2; shift 2
CHECKS=${@:-$ID}
WT=/tmp/seedrun/wt_$$
VC=/tmp/seedrun/verif_$$
mkdir -p /tmp/seedrun
git -C /repo worktree add -q --detach $WT HEAD || exit 2
rsync -a --exclude .git --exclude 'build/out' --exclude replays /verif/ $VC/
export GOFLAGS=-mod=mod GOPROXY=off GOSUMDB=off
res="{\"id\":\"$ID\",\"mutation\":\"$MDIR\""
# 1. demo passes on clean tree
cp -r $MDIR/demo/. $WT/ 2>/dev/null
DEMO_PKGS=$(cd $MDIR/demo && find . -name '*_test.go' -exec dirname {} \; | sort -u | tr '\n' ' ')
( cd $WT && go test -vet=off -count=1 $DEMO_PKGS -run 'Demo' >/tmp/seedrun/demo_clean_$$.txt 2>&1 ); rc_clean=$?
# 2. apply patch
( cd $WT && git apply $MDIR/patch.diff ) || { echo "PATCH DOES NOT APPLY"; git -C /repo worktree remove --force $WT; rm -rf $VC; exit 3; }
( cd $WT && go build ./... >/tmp/seedrun/build_$$.txt 2>&1 ); rc_build=$?
( cd $WT && go test -vet=off -count=1 $DEMO_PKGS -run 'Demo' >/tmp/seedrun/demo_mut_$$.txt 2>&1 ); rc_mut=$?
# 3. suite with the patch, without demo files
( cd $MDIR/demo && find . -type f ) | while read f; do rm -f $WT/$f; done
( cd $WT && go test -vet=off -count=1 ./... >/tmp/seedrun/suite_$$.txt 2>&1 ); rc_suite=$?
if [ $rc_suite -ne 0 ]; then   # flaky pipe test: retry once
  ( cd $WT && go test -vet=off -count=1 ./... >/tmp/seedrun/suite_$$.txt 2>&1 ); rc_suite=$?
fi
echo "demo_clean_rc=$rc_clean build_rc=$rc_build demo_mut_rc=$rc_mut suite_rc=$rc_suite"
# 4. checks against the mutated worktree
for c in $CHECKS; do
  ( cd $VC && VERIF_REPO=$WT ./check $c > /tmp/seedrun/check_${c}_$$.txt 2>&1 ); rc=$?
  echo "check $c rc=$rc : $(grep -E '^(VIOLATION|KNOWN-FINDING|OK)' /tmp/seedrun/check_${c}_$$.txt | head -3 | tr '\n' ';')"
  grep -E "^(BROKEN|DIFF)" /tmp/seedrun/check_${c}_$$.txt | head -3 | cut -c1-300
  for r in $(grep -oE 'replay=[^ ]+' /tmp/seedrun/check_${c}_$$.txt | cut -d= -f2 | head -2); do
    python3 -c "
import json,sys
d=json.load(open('$r')); print('   replay:', d.get('what') or d.get('kind'), '|', (d.get('detail') or str([b['name'] for b in d.get('broken',[])]))[:240])" 2>/dev/null
  done
done
git -C /repo worktree remove --force $WT
rm -rf $VC
