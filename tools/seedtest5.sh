#!/bin/bash
# seedtest5.sh <PROP_ID> <mutation dir with patch.diff, demo/, meta.json> [check ids...]
# Like seedtest.sh, but the private copy of /verif is the COMMITTED tree (git archive HEAD)
# plus the live build caches, so that owners editing /verif at the same time do not
# disturb the verdict. Output: /tmp/seedrun/<tag>/ (kept), one summary line per step.
set -u
ID=$1; MDIR=$2; shift 2
CHECKS=${@:-$ID}
TAG=$(basename $MDIR)_$$
OUT=/tmp/seedrun/$TAG
WT=/tmp/seedrun/wt_$TAG
VC=/tmp/seedrun/verif_$TAG
mkdir -p $OUT
git -C /repo worktree add -q --detach $WT HEAD || exit 2
mkdir -p $VC && git -C /verif archive HEAD | tar -x -C $VC
rsync -a --exclude out /verif/build/ $VC/build/ 2>/dev/null
mkdir -p $VC/lean/.lake && rsync -a /verif/lean/.lake/ $VC/lean/.lake/
export GOFLAGS=-mod=mod GOPROXY=off GOSUMDB=off
cp -r $MDIR/demo/. $WT/ 2>/dev/null
DEMO_PKGS=$(cd $MDIR/demo && find . -name '*_test.go' -exec dirname {} \; | sort -u | tr '\n' ' ')
( cd $WT && go test -vet=off -count=1 $DEMO_PKGS -run 'Demo' >$OUT/demo_clean.txt 2>&1 ); rc_clean=$?
( cd $WT && git apply $MDIR/patch.diff ) || { echo "PATCH DOES NOT APPLY"; git -C /repo worktree remove --force $WT; rm -rf $VC; exit 3; }
( cd $WT && go build ./... >$OUT/build.txt 2>&1 ); rc_build=$?
( cd $WT && go test -vet=off -count=1 $DEMO_PKGS -run 'Demo' >$OUT/demo_mut.txt 2>&1 ); rc_mut=$?
( cd $MDIR/demo && find . -type f ) | while read f; do rm -f $WT/$f; done
( cd $WT && go test -vet=off -count=1 ./... >$OUT/suite.txt 2>&1 ); rc_suite=$?
if [ $rc_suite -ne 0 ]; then
  ( cd $WT && go test -vet=off -count=1 ./... >$OUT/suite.txt 2>&1 ); rc_suite=$?
fi
echo "demo_clean_rc=$rc_clean build_rc=$rc_build demo_mut_rc=$rc_mut suite_rc=$rc_suite" | tee $OUT/summary.txt
for c in $CHECKS; do
  ( cd $VC && VERIF_REPO=$WT ./check $c > $OUT/check_${c}.txt 2>&1 ); rc=$?
  echo "check $c rc=$rc : $(grep -E '^(VIOLATION|KNOWN-FINDING|OK)' $OUT/check_${c}.txt | head -3 | tr '\n' ';')" | tee -a $OUT/summary.txt
  grep -E "^(BROKEN|DIFF)" $OUT/check_${c}.txt | head -3 | cut -c1-300 | tee -a $OUT/summary.txt
  for r in $(grep -oE 'replay=[^ ]+' $OUT/check_${c}.txt | cut -d= -f2 | head -2); do
    cp $r $OUT/ 2>/dev/null
    python3 -c "
import json,sys
d=json.load(open('$r')); print('   replay:', d.get('what') or d.get('kind'), '|', (d.get('detail') or str([b['name'] for b in d.get('broken',[])]))[:240])" 2>/dev/null | tee -a $OUT/summary.txt
  done
done
git -C /repo worktree remove --force $WT
rm -rf $VC
