#!/bin/bash
# wipsave.sh - snapshot the whole working tree of /verif as a commit on branch `wip`
# without touching HEAD, the index or the working tree (safety copy while owners are mid-edit).
cd /verif
export GIT_INDEX_FILE=/tmp/wip_index_$$
cp .git/index $GIT_INDEX_FILE
git add -A
tree=$(git write-tree)
parent=$(git rev-parse -q --verify refs/heads/wip || git rev-parse HEAD)
c=$(git commit-tree $tree -p $parent -p $(git rev-parse HEAD) -m "wip snapshot $(date -u +%H:%M)")
git update-ref refs/heads/wip $c
rm -f $GIT_INDEX_FILE
echo "wip -> $c"
