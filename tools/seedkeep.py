#!/usr/bin/env python3
"""seedkeep.py <seed-id> <mutation dir> <caught-by csv|none> <notes>
Stores a confirmed seeded mutation under /verif/seeded/<seed-id>/ (patch.diff,
demo/, meta.json extended with what was run here and which checks caught it)."""
import json, os, shutil, sys
sid, mdir, caught, notes = sys.argv[1:5]
dst = f"/verif/seeded/{sid}"
os.makedirs(dst, exist_ok=True)
shutil.copy(os.path.join(mdir, "patch.diff"), dst)
if os.path.exists(os.path.join(dst, "demo")):
    shutil.rmtree(os.path.join(dst, "demo"))
shutil.copytree(os.path.join(mdir, "demo"), os.path.join(dst, "demo"))
meta = json.load(open(os.path.join(mdir, "meta.json")))
meta["confirmed_here"] = {
    "how": "tools/seedtest.sh: scratch worktree of /repo at HEAD; demo passes on the clean tree, fails with patch.diff applied; "
           "go build ./... ok; existing suite (go test -vet=off -count=1 ./...) passes with the patch (pkg/io/pipe TestPipe* is flaky on the clean tree too and is retried once); "
           "then ./check <ids> run from a private copy of /verif with VERIF_REPO=<worktree>",
    "caught_by": [] if caught == "none" else caught.split(","),
    "notes": notes,
}
json.dump(meta, open(os.path.join(dst, "meta.json"), "w"), indent=1)
print("kept", dst)
