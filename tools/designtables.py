#!/usr/bin/env python3
"""Rewrites the markdown tables of DESIGN.md §10.4 (fixes/findings) and §10.6 (seeded mutations)
in place from known_findings.json and seeded/*/meta.json (each table = the block of lines starting
with its header row up to the next blank line). `--print` only prints them."""
import glob, json, os, re, subprocess, sys, io
_out = io.StringIO()
_print = print
def print(*a):
    _print(*a, file=_out)
root = os.path.dirname(os.path.dirname(os.path.abspath(__file__)))
def esc(x): return str(x).replace("|", "\\|").replace("\n", " ")
k = json.load(open(os.path.join(root, "known_findings.json")))
print("| property | commit | what failed |\n|---|---|---|")
for f in k["fixed"]:
    m = re.match(r"fixed: property=(\S+) (\S+) (.*)", f)
    if m:
        print(f"| {m.group(1)} | `{m.group(2)}` | {esc(m.group(3))[:420]} |")
print()
print("| finding | property | what / witness | why not repaired |\n|---|---|---|---|")
for f in k["findings"]:
    print(f"| {f['id']} | {f['property']} | `{f['what']}` {json.dumps(f.get('witness',{}))} | {f['summary'][:500]} |")
print()
print("| seed | property | needs to manifest | caught by | how / notes |\n|---|---|---|---|---|")
for p in sorted(glob.glob(os.path.join(root, "seeded", "*", "meta.json"))):
    d = json.load(open(p))
    c = d.get("confirmed_here", {})
    sid = os.path.basename(os.path.dirname(p))
    need = esc(d.get("needs_to_manifest", ""))[:260]
    print(f"| {sid} | {d.get('property')} | {need} | {', '.join(c.get('caught_by', [])) or '**missed**'} | {esc(c.get('notes',''))[:400]} |")

txt = _out.getvalue()
if "--print" in sys.argv:
    _print(txt)
else:
    tables = [t for t in txt.split("\n\n") if t.strip()]
    dp = os.path.join(root, "DESIGN.md")
    d = open(dp).read().split("\n")
    for t in tables:
        head = t.split("\n")[0]
        try:
            i = d.index(head)
        except ValueError:
            _print("header not found in DESIGN.md:", head); continue
        j = i
        while j < len(d) and d[j].strip() != "":
            j += 1
        d[i:j] = t.rstrip("\n").split("\n")
    open(dp, "w").write("\n".join(d))
    _print("DESIGN.md tables rewritten:", len(tables))
