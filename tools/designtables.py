#!/usr/bin/env python3
"""Prints the markdown tables of DESIGN.md §10.4 (fixes/findings) and §10.6 (seeded mutations)
from known_findings.json and seeded/*/meta.json."""
import glob, json, os, re, subprocess
root = os.path.dirname(os.path.dirname(os.path.abspath(__file__)))
def esc(x): return str(x).replace("|", "\\|").replace("\n", " ")
k = json.load(open(os.path.join(root, "known_findings.json")))
print("| property | commit | what failed |\n|---|---|---|")
for f in k["fixed"]:
    m = re.match(r"fixed: property=(\S+) (\S+) (.*)", f)
    if m:
        print(f"| {m.group(1)} | `{m.group(2)}` | {esc(m.group(3))[:420]} |")
print()
print("| finding | property | what / witness | why not repaired |\n|---|---|---|---|")
for f in k["findings"]:
    print(f"| {f['id']} | {f['property']} | `{f['what']}` {json.dumps(f.get('witness',{}))} | {f['summary'][:500]} |")
print()
print("| seed | property | needs to manifest | caught by | how / notes |\n|---|---|---|---|---|")
for p in sorted(glob.glob(os.path.join(root, "seeded", "*", "meta.json"))):
    d = json.load(open(p))
    c = d.get("confirmed_here", {})
    sid = os.path.basename(os.path.dirname(p))
    need = esc(d.get("needs_to_manifest", ""))[:260]
    print(f"| {sid} | {d.get('property')} | {need} | {', '.join(c.get('caught_by', [])) or '**missed**'} | {esc(c.get('notes',''))[:400]} |")
